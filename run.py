#!/usr/bin/env python3
"""Solver-based checks of aliddell/acquire-common.

usage: run.py <PROPERTY> [--tier quick|thorough] [--only HARNESS[,HARNESS]] [--keep] [--jobs N]
       run.py --replay <dir>

Every harness is (re)compiled from /repo's current working tree with goto-cc, decided by
CBMC (SAT/SMT back end named per harness) under --unwinding-assertions, its reachability
witness and cover goals are decided by a second CBMC run (--cover cover), counterexamples are
replayed natively (gcc + ASan/UBSan, same harness source, values of the trace) before a
VIOLATION line is printed.  Exit codes: 0 held on everything explored; 1 violation (replayed);
2 inconclusive / machinery problem (timeout, OOM, unwinding bound too small, missing body,
vacuous harness); 3 solver counterexample that the native replay did not reproduce.
"""
import argparse
import importlib.util
import json
import os
import re
import resource
import shutil
import signal
import subprocess
import sys
import time
from concurrent.futures import ThreadPoolExecutor

VERIF = os.path.dirname(os.path.abspath(__file__))
REPO = os.environ.get("VERIF_REPO", "/repo")

INCLUDE_ROOTS = [
    "acquire-core-libs/src/acquire-core-logger",
    "acquire-core-libs/src/acquire-core-platform/linux",
    "acquire-core-libs/src/acquire-device-properties",
    "acquire-core-libs/src/acquire-device-kit",
    "acquire-core-libs/src/acquire-device-hal",
    "acquire-video-runtime/src",
    "acquire-video-runtime/src/runtime",
    "acquire-driver-common/src",
    "acquire-driver-common/src/simcams",
    "acquire-driver-common/src/storage",
    "acquire-driver-common/src/simcams/3rdParty/pcg-c-basic-0.9",
]
BASE_DEFS = ["-DNDEBUG", "-DNO_UNIT_TESTS", "-DACQUIRE_COMMON_VERIF=1"]

CBMC_CHECK_FLAGS = [
    "--unwinding-assertions",
    "--pointer-overflow-check",
    "--signed-overflow-check",
    "--undefined-shift-check",
    "--drop-unused-functions",
    "--no-malloc-may-fail",
    "--object-bits", "12",
]

SOLVERS = {
    "default": [],
    "minisat": [],
    "cadical": ["--sat-solver", "cadical"],
    "kissat": ["--external-sat-solver", "kissat"],
    "z3": ["--z3"],
    "cvc5": ["--cvc5"],
}


class H(dict):
    """harness specification (see props/*.py)"""

    def __init__(self, name, src, **kw):
        d = dict(
            name=name, src=src, repo=[], env=[], defines=[], unwind=2, unwindset={},
            flags=[], solver="default", timeout=600, mem_gb=12, tiers=("quick", "thorough"),
            expect="pass", covers=None, isr=None, ignore=[], depth=None, finding=None,
            excludes=[], weight=1, recursion_is_violation=False, cflags=[], what="",
            pre=None, no_cover=False, replay_cflags=[], drop_flags=[], replay_mode='native', est_gb=3, cover_timeout=None, bounds={}, nobody_ok=[],
        )
        d.update(kw)
        super().__init__(d)
        self.__dict__ = self


def log(*a):
    print(*a, file=sys.stderr, flush=True)


def limit_mem(gb):
    def f():
        os.setsid()
        b = int(gb * (1 << 30))
        resource.setrlimit(resource.RLIMIT_AS, (b, b))
    return f


def run_cmd(cmd, timeout, mem_gb, cwd=None, env=None, stdout_path=None):
    """returns (rc, stdout_text, wall, maxrss_kb, timed_out)"""
    t0 = time.time()
    timef = stdout_path + ".time" if stdout_path else None
    full = ["/usr/bin/time", "-f", "%M", "-o", timef] + cmd if timef else cmd
    out_f = open(stdout_path, "w") if stdout_path else subprocess.PIPE
    p = subprocess.Popen(full, stdout=out_f, stderr=subprocess.PIPE, cwd=cwd, env=env,
                         preexec_fn=limit_mem(mem_gb), text=True)
    to = False
    try:
        so, se = p.communicate(timeout=timeout)
    except subprocess.TimeoutExpired:
        to = True
        try:
            os.killpg(p.pid, signal.SIGKILL)
        except ProcessLookupError:
            pass
        so, se = p.communicate()
    if stdout_path:
        out_f.close()
        so = None
    rss = 0
    if timef and os.path.exists(timef):
        try:
            rss = int(open(timef).read().strip().splitlines()[-1])
        except Exception:
            rss = 0
    return p.returncode, so, se, time.time() - t0, rss, to


def inc_flags(extra=()):
    fl = ["-I" + os.path.join(REPO, r) for r in INCLUDE_ROOTS]
    fl += ["-I" + os.path.join(VERIF, "lib"), "-I" + os.path.join(VERIF, "env"), "-I" + VERIF]
    return fl + list(extra)


def parse_cbmc_json(path):
    """tolerant parser of --json-ui output; returns (results, goals, messages, status)"""
    txt = open(path).read()
    try:
        data = json.loads(txt)
    except Exception:
        # truncated output (killed): recover what we can
        return None, None, [txt[-2000:]], "broken-json"
    results, goals, msgs, status = [], [], [], None
    for m in data:
        if "result" in m:
            results = m["result"]
        if "goals" in m:
            goals = m["goals"]
        if "messageText" in m:
            msgs.append((m.get("messageType", ""), m["messageText"]))
        if "cProverStatus" in m:
            status = m["cProverStatus"]
    return results, goals, msgs, status


def classify(prop_name, desc):
    if ".recursion" in prop_name or "recursion unwinding" in desc:
        return "recursion"
    if ".unwind." in prop_name or "unwinding assertion" in desc:
        return "unwind"
    if ".no-body." in prop_name:
        return "no-body"
    return "check"


def trace_inputs(trace):
    vals = []
    for s in trace:
        if s.get("stepType") == "assignment" and not s.get("hidden") and \
                s.get("lhs", "") == "nd_val_":
            v = s["value"]
            b = v.get("binary")
            if b is None:
                # floats etc: take the data
                b = ""
            loc = s.get("sourceLocation", {})
            vals.append((b, v.get("data", ""), "%s:%s" % (os.path.basename(loc.get("file", "?")),
                                                           loc.get("line", "?"))))
    return vals


def trace_summary(trace, maxn=400):
    out = []
    for s in trace:
        st = s.get("stepType")
        loc = s.get("sourceLocation", {})
        where = "%s:%s" % (os.path.basename(loc.get("file", "")), loc.get("line", ""))
        if st == "function-call":
            out.append("CALL %s @%s" % (s.get("function", {}).get("displayName", "?"), where))
        elif st == "failure":
            out.append("FAIL %s @%s" % (s.get("reason", ""), where))
        elif st == "assignment" and not s.get("hidden"):
            lhs = s.get("lhs", "")
            if lhs.startswith("__CPROVER") or lhs.startswith("return_value") or "inner_" in lhs \
                    or lhs.startswith("tmp_statement") or lhs.startswith("goto_symex"):
                continue
            out.append("  %s = %s @%s" % (lhs, s["value"].get("data", s["value"].get("name", "?")), where))
    if len(out) > maxn:
        out = out[:maxn // 2] + ["..."] + out[-maxn // 2:]
    return out


import threading
MEM_BUDGET_GB = int(os.environ.get("VERIF_MEM_GB", "44"))
MEM_COND = threading.Condition()
MEM_USED = [0]


class Runner:
    def __init__(self, prop, tier, work, keep=False):
        self.prop, self.tier, self.work, self.keep = prop, tier, work, keep

    # ---- building ------------------------------------------------------------------
    def sources(self, h):
        srcs = [os.path.join(VERIF, h.src)]
        srcs += [os.path.join(REPO, r) for r in h.repo]
        srcs += [os.path.join(VERIF, e) for e in h.env]
        return srcs

    def compile(self, h, cover):
        d = os.path.join(self.work, h.name)
        os.makedirs(d, exist_ok=True)
        if h.pre:
            h.pre(h, d, self)  # may generate sources (IR route) into d and extend h.env
        out = os.path.join(d, "cover.gb" if cover else "main.gb")
        cmd = ["goto-cc", "-o", out] + inc_flags(["-I" + d]) + BASE_DEFS + \
            ["-D" + x for x in h.defines] + h.cflags
        if cover:
            cmd.append("-DVERIF_COVER")
        cmd += self.sources(h) + [os.path.join(d, g) for g in getattr(h, "generated", [])]
        rc, so, se, wall, rss, to = run_cmd(cmd, 300, 8)
        if rc != 0:
            return None, "goto-cc failed: " + (se or "")[-3000:]
        if h.isr:
            out2 = out.replace(".gb", ".isr.gb")
            rc, so, se, wall, rss, to = run_cmd(["goto-instrument", "--isr", h.isr, out, out2], 300, 8)
            if rc != 0:
                return None, "goto-instrument --isr failed: " + (se or "")[-2000:]
            out = out2
        return out, None

    def cbmc_cmd(self, h, gb, cover):
        cmd = ["cbmc", gb, "--json-ui", "--unwind", str(h.unwind)]
        if h.unwindset:
            cmd += ["--unwindset", ",".join("%s:%d" % kv for kv in h.unwindset.items())]
        if h.depth:
            cmd += ["--depth", str(h.depth)]
        if cover:
            cmd += ["--cover", "cover", "--drop-unused-functions", "--no-malloc-may-fail",
                    "--object-bits", "12", "--no-standard-checks"]
            cmd += [f for f in h.flags if f.startswith("--max-nondet") or f in ("--no-built-in-assertions",)]
        else:
            cmd += [f for f in CBMC_CHECK_FLAGS if f not in h.drop_flags] + ["--trace"] + h.flags + SOLVERS[h.solver]
        return cmd

    # ---- one harness ---------------------------------------------------------------
    def run_harness(self, h):
        # memory-aware admission: the sum of the estimated peaks of running harnesses stays below the budget
        need = min(h.est_gb, MEM_BUDGET_GB)
        with MEM_COND:
            while MEM_USED[0] + need > MEM_BUDGET_GB and MEM_USED[0] > 0:
                MEM_COND.wait()
            MEM_USED[0] += need
        try:
            return self._run_harness(h)
        finally:
            with MEM_COND:
                MEM_USED[0] -= need
                MEM_COND.notify_all()

    def _run_harness(self, h):
        r = dict(name=h.name, what=h.what, solver=h.solver, unwind=h.unwind, unwindset=h.unwindset,
                 bounds=h.bounds, expect=h.expect, status="?", failed=[], properties=0,
                 covers=[], wall_s=0.0, solver_cmd="", rss_mb=0, notes=[])
        t0 = time.time()
        d = os.path.join(self.work, h.name)
        gb, err = self.compile(h, cover=False)
        if getattr(h, "what_extra", None):
            r["generated_sources"] = h.what_extra
        if err:
            r["status"] = "inconclusive"
            r["notes"].append(err)
            return r
        r["functions"] = self.functions_encoded(gb)
        cmd = self.cbmc_cmd(h, gb, cover=False)
        r["solver_cmd"] = " ".join(cmd).replace(self.work, "$WORK")
        outp = os.path.join(d, "main.json")
        rc, so, se, wall, rss, to = run_cmd(cmd, h.timeout, h.mem_gb, stdout_path=outp)
        r["wall_s"] = round(wall, 2)
        r["rss_mb"] = rss // 1024
        if to:
            r["status"] = "inconclusive"
            r["notes"].append("timeout after %ds" % h.timeout)
            return r
        results, goals, msgs, status = parse_cbmc_json(outp)
        if results is None or status is None and not results:
            r["status"] = "inconclusive"
            tail = (se or "")[-800:]
            r["notes"].append("no verdict (rc=%s, rss=%dMB): %s %s" % (rc, rss // 1024, tail,
                                                                      str(msgs[-3:])[:1500]))
            return r
        for mt, txt in msgs:
            if mt == "ERROR" or "(error" in txt:
                r["notes"].append("solver/cbmc error message: " + txt[:500])
                r["status"] = "inconclusive"
        r["properties"] = len(results)
        viol, mach, undecided = [], [], []
        ignored_keys = set()
        for p in results:
            if p["status"] == "SUCCESS":
                continue
            desc = p.get("description", "")
            name = p["property"]
            cls = classify(name, desc)
            entry = dict(property=name, description=desc, status=p["status"], cls=cls,
                         loc="%s:%s" % (p.get("sourceLocation", {}).get("file", ""),
                                        p.get("sourceLocation", {}).get("line", "")))
            if p["status"] != "FAILURE":
                undecided.append(entry)
                continue
            if any(re.search(pat, name + " " + desc) for pat in h.ignore):
                r["notes"].append("ignored (listed class): %s %s" % (name, desc))
                ignored_keys.add((entry["loc"], desc.split(" in ", 1)[-1]))
                continue
            if cls == "no-body":
                if any(re.search(pat, name) for pat in h.nobody_ok):
                    continue
                mach.append(entry)
            elif cls == "unwind" or (cls == "recursion" and not h.recursion_is_violation):
                mach.append(entry)
            else:
                entry["trace"] = p.get("trace")
                viol.append(entry)
        # sibling checks of an ignored failure (same expression) are left UNKNOWN by CBMC
        undecided = [e for e in undecided if (e["loc"], e["description"].split(" in ", 1)[-1]) not in ignored_keys]
        if undecided and not viol and not mach:
            # (with a non-incremental back end UNKNOWN next to FAILUREs is normal; alone it is not)
            mach += undecided
        r["undecided"] = len(undecided)
        r["failed"] = [{k: v for k, v in e.items() if k != "trace"} for e in viol]
        r["machinery"] = mach
        r["_viol"] = viol
        if r["status"] == "inconclusive":
            pass
        elif viol and all(e["cls"] in ("unwind", "recursion") for e in mach):
            # a failed check is a concrete counterexample whatever other paths exceed the bound
            # (it is replayed natively before it is reported)
            r["status"] = "fail"
            if mach:
                r["notes"].append("also beyond the bound on other paths: " + "; ".join(e["property"] for e in mach[:4]))
        elif mach:
            r["status"] = "inconclusive"
            r["notes"].append("bound/machinery failures: " + "; ".join(
                "%s (%s)" % (e["property"], e["description"]) for e in mach[:6]))
        elif viol:
            r["status"] = "fail"
        else:
            r["status"] = "pass"
        # cover / witness run
        if not h.no_cover and r["status"] in ("pass",):
            gbc, err = self.compile(h, cover=True)
            if err:
                r["status"] = "inconclusive"
                r["notes"].append("cover build: " + err)
            else:
                cmdc = self.cbmc_cmd(h, gbc, cover=True)
                outc = os.path.join(d, "cover.json")
                rc, so, se, wallc, rssc, toc = run_cmd(cmdc, h.cover_timeout or h.timeout, h.mem_gb,
                                                       stdout_path=outc)
                r["cover_wall_s"] = round(wallc, 2)
                if toc:
                    r["status"] = "inconclusive"
                    r["notes"].append("cover run timeout")
                else:
                    _, goals, msgs2, _ = parse_cbmc_json(outc)
                    if not goals:
                        r["status"] = "inconclusive"
                        r["notes"].append("cover run gave no goals: %s" % str(msgs2[-2:])[:600])
                    else:
                        unsat = []
                        for g in goals:
                            ok = g["status"] == "satisfied"
                            r["covers"].append(dict(goal=g.get("description", g["goal"]), hit=ok,
                                                    line=g.get("sourceLocation", {}).get("line")))
                            if not ok:
                                unsat.append(g.get("description", g["goal"]))
                        if unsat:
                            r["status"] = "inconclusive"
                            r["notes"].append("VACUITY: unreachable witness/cover goals: " + "; ".join(unsat))
        r["total_wall_s"] = round(time.time() - t0, 2)
        return r

    def functions_encoded(self, gb):
        try:
            p = subprocess.run(["goto-instrument", "--drop-unused-functions", gb,
                                gb + ".used"], capture_output=True, text=True, timeout=120)
            p = subprocess.run(["goto-instrument", "--list-goto-functions", gb + ".used"],
                               capture_output=True, text=True, timeout=120)
            fns = []
            for line in p.stdout.splitlines():
                m = re.match(r"\s*(\S+) .*", line)
                line = line.strip()
                if not line or line.startswith("Reading") or line.startswith("__CPROVER"):
                    continue
                fns.append(line.split()[0])
            os.remove(gb + ".used")
            return fns
        except Exception as e:
            return ["<unavailable: %s>" % e]

    # ---- self-test of the replay build ----------------------------------------------
    def link_test(self, h):
        """does the native replay of this harness compile and link?  (a counterexample whose replay
        does not build is reported as UNCONFIRMED, so this is checked before it is needed)"""
        if h.replay_mode == "trace" or h.isr:
            return True, "trace-only harness"
        d = os.path.join(self.work, h.name)
        os.makedirs(d, exist_ok=True)
        if h.pre:
            try:
                h.pre(h, d, self)
            except Exception as e:
                return False, "pre hook: %r" % e
        srcs = self.sources(h) + [os.path.join(d, g) for g in getattr(h, "generated", [])]
        srcs.append(os.path.join(VERIF, "lib/replay_rt.c"))
        cmd = ["gcc", "-std=gnu11", "-g", "-O0", "-w", "-DVERIF_REPLAY"] + inc_flags(["-I" + d]) + BASE_DEFS + ["-D" + x for x in h.defines] + \
            [c for c in h.cflags] + list(h.replay_cflags) + srcs + ["-o", os.path.join(d, "linktest.bin"), "-lm", "-lpthread"]
        p = subprocess.run(cmd, capture_output=True, text=True)
        try:
            os.remove(os.path.join(d, "linktest.bin"))
        except OSError:
            pass
        return p.returncode == 0, (p.stderr or "")[-600:]

    # ---- replay --------------------------------------------------------------------
    def replay(self, h, entry, outdir):
        """build the harness natively and run it on the values of the trace"""
        os.makedirs(outdir, exist_ok=True)
        if h.replay_mode == "trace" or h.isr:
            # preemptions inserted by goto-instrument --isr sit between machine instructions of the
            # main flow; the native build has no such call sites, so the solver's trace (with the
            # placement of every env_step call) is the artefact
            with open(os.path.join(outdir, "trace.txt"), "w") as f:
                f.write("property: %s\ndescription: %s\nlocation: %s\n\n" % (entry["property"], entry["description"], entry["loc"]))
                f.write("\n".join(trace_summary(entry.get("trace") or [], maxn=4000)))
            with open(os.path.join(outdir, "run.sh"), "w") as f:
                f.write("#!/bin/sh\n# instruction-level preemption schedule: not replayable natively; see trace.txt\ncat %s/trace.txt | tail -60\nexit 1\n" % outdir)
            os.chmod(os.path.join(outdir, "run.sh"), 0o755)
            return True, "solver trace only (ISR schedule; no native replay possible)"
        vals = trace_inputs(entry.get("trace") or [])
        with open(os.path.join(outdir, "inputs.txt"), "w") as f:
            f.write("# ND() draws in trace order for %s / %s\n" % (h.name, entry["property"]))
            for b, data, where in vals:
                f.write("%s  # %s @%s\n" % (b if b else "0", data, where))
        with open(os.path.join(outdir, "trace.txt"), "w") as f:
            f.write("property: %s\ndescription: %s\nlocation: %s\n\n" %
                    (entry["property"], entry["description"], entry["loc"]))
            f.write("\n".join(trace_summary(entry.get("trace") or [])))
        with open(os.path.join(outdir, "calls.txt"), "w") as f:
            f.write("\n".join(l for l in trace_summary(entry.get("trace") or [], maxn=10**9) if l.startswith("CALL") or l.startswith("FAIL")))
        d = os.path.join(self.work, h.name)
        srcs = self.sources(h) + [os.path.join(d, g) for g in getattr(h, "generated", [])]
        srcs.append(os.path.join(VERIF, "lib/replay_rt.c"))
        # keep copies of the harness-side sources with the replay (repo sources are referenced)
        cmd = ["gcc", "-std=gnu11", "-g", "-O0", "-fsanitize=address,undefined",
               "-fno-sanitize-recover=undefined", "-fno-sanitize=alignment", "-fno-omit-frame-pointer", "-w",
               "-DVERIF_REPLAY"] + inc_flags(["-I" + d]) + BASE_DEFS + ["-D" + x for x in h.defines] + \
            [c for c in h.cflags] + list(h.replay_cflags) + srcs + ["-o", os.path.join(outdir, "replay.bin"), "-lm", "-lpthread"]
        sh = os.path.join(outdir, "run.sh")
        with open(sh, "w") as f:
            f.write("#!/bin/sh\n# native replay of a CBMC counterexample: same harness source, real repo sources,\n"
                    "# ND() values from inputs.txt. exit 77 = trace not followed; abort/ASan = violation reproduced\n")
            f.write("cd %s || exit 2\n" % outdir)
            f.write(" ".join("'%s'" % c for c in cmd) + " || exit 2\n")
            f.write("VERIF_REPLAY_INPUTS=%s/inputs.txt ASAN_OPTIONS=detect_leaks=%d:abort_on_error=0 "
                    "timeout 60 ./replay.bin\n" % (outdir, 1 if "--memory-leak-check" in h.flags else 0))
        os.chmod(sh, 0o755)
        p = subprocess.run([sh], capture_output=True, text=True)
        with open(os.path.join(outdir, "replay.log"), "w") as f:
            f.write(p.stdout + "\n" + p.stderr + "\nexit=%d\n" % p.returncode)
        try:
            os.remove(os.path.join(outdir, "replay.bin"))
        except OSError:
            pass
        txt = p.stdout + p.stderr
        if p.returncode in (0, 77, 78, 2, 124):
            return False, "native replay exit=%d" % p.returncode
        if "REPLAY: ASSERTION VIOLATED" in txt:
            how = "assertion: " + txt.split("REPLAY: ASSERTION VIOLATED:")[1].splitlines()[0].strip()[:160]
        elif "ERROR: AddressSanitizer" in txt or "runtime error:" in txt or "LeakSanitizer" in txt:
            how = "sanitizer: " + [l for l in txt.splitlines() if "Sanitizer" in l or "runtime error" in l][0][:160]
        else:
            how = "abnormal exit %d" % p.returncode
        return True, "native replay reproduced: " + how


def load_prop(prop):
    path = os.path.join(VERIF, "props", prop + ".py")
    spec = importlib.util.spec_from_file_location("prop_" + prop, path)
    m = importlib.util.module_from_spec(spec)
    m.H = H
    m.VERIF, m.REPO = VERIF, REPO
    spec.loader.exec_module(m)
    return m


def load_findings(prop):
    p = os.path.join(VERIF, "known_findings.json")
    if not os.path.exists(p):
        return []
    return [e for e in json.load(open(p)).get("entries", []) if e["property"] == prop]


def main():
    ap = argparse.ArgumentParser()
    ap.add_argument("prop", nargs="?")
    ap.add_argument("--tier", default=os.environ.get("VERIF_TIER", "quick"))
    ap.add_argument("--only", default="")
    ap.add_argument("--keep", action="store_true")
    ap.add_argument("--jobs", type=int, default=int(os.environ.get("VERIF_JOBS", "12")))
    ap.add_argument("--replay")
    ap.add_argument("--no-evidence", action="store_true")
    ap.add_argument("--linktest", action="store_true", help="only check that the native replay build of every harness compiles and links")
    a = ap.parse_args()
    if a.replay:
        sys.exit(subprocess.call([os.path.join(a.replay, "run.sh")]))
    prop, tier = a.prop, a.tier
    seed = int(os.environ.get("VERIF_SEED", "0") or 0)
    t0 = time.time()
    m = load_prop(prop)
    findings = load_findings(prop)
    active_findings = [f for f in findings if f["kind"] == "finding"]
    hs = m.harnesses(tier, [f["id"] for f in active_findings])
    if a.only:
        names = set(a.only.split(","))
        hs = [h for h in hs if h.name in names]
    work = os.path.join(VERIF, ".work", "%s-%d" % (prop, os.getpid()))
    os.makedirs(work, exist_ok=True)
    R = Runner(prop, tier, work, a.keep)
    if a.linktest:
        bad = 0
        seen = set()
        for h in hs:
            key = (h.src, tuple(h.defines))
            ok, msg = R.link_test(h)
            if not ok:
                bad += 1
                log("LINKTEST-FAILED property=%s harness=%s %s" % (prop, h.name, msg.replace("\n", " | ")[-500:]))
        log("LINKTEST property=%s tier=%s harnesses=%d failed=%d" % (prop, tier, len(hs), bad))
        shutil.rmtree(work, ignore_errors=True)
        sys.exit(2 if bad else 0)
    # heavy harnesses first
    hs.sort(key=lambda h: -h.timeout * h.weight)
    results = []
    try:
        budget = a.jobs
        with ThreadPoolExecutor(max_workers=budget) as ex:
            futs = [ex.submit(R.run_harness, h) for h in hs]
            for h, f in zip(hs, futs):
                try:
                    res = f.result()
                except Exception as e:  # machinery crash
                    res = dict(name=h.name, status="inconclusive", notes=["exception: %r" % e], failed=[],
                               covers=[], properties=0, wall_s=0, expect=h.expect, what=h.what)
                results.append((h, res))
                log("[%s] %-34s %-12s props=%-4s wall=%ss rss=%sMB %s" % (
                    prop, h.name, res["status"], res.get("properties"), res.get("wall_s"),
                    res.get("rss_mb", 0), "; ".join(res.get("notes", []))[:400]))
        # ---- verdict -----------------------------------------------------------------
        exit_code = 0
        lines = []
        violations = 0
        replay_root = os.path.join(VERIF, "replays", prop)
        traces_validated = 0
        for h, res in results:
            if h.expect == "pass":
                if res["status"] == "pass":
                    continue
                if res["status"] == "inconclusive":
                    exit_code = max(exit_code, 2) if exit_code != 1 else 1
                    lines.append("INCONCLUSIVE property=%s harness=%s %s" % (prop, h.name,
                                                                              "; ".join(sorted(res["notes"], key=lambda n: n.startswith("ignored")))[:600]))
                    continue
                # fail: replay first failing obligation (prefer explicit assertions)
                viol = res.pop("_viol")
                viol.sort(key=lambda e: 0 if ".assertion." in e["property"] else 1)
                outdir = os.path.join(replay_root, h.name)
                shutil.rmtree(outdir, ignore_errors=True)
                confirmed, how = False, ""
                for e in viol[:4]:
                    confirmed, how = R.replay(h, e, outdir)
                    if confirmed:
                        break
                res["replay"] = how
                desc = "; ".join("%s: %s" % (e["property"], e["description"]) for e in viol[:3])
                if confirmed:
                    traces_validated += 1
                    violations += 1
                    exit_code = 1
                    lines.append("VIOLATION property=%s replay=%s harness=%s what=%s" % (prop, outdir, h.name, desc[:500]))
                else:
                    if exit_code == 0 or exit_code == 2:
                        exit_code = 3
                    lines.append("UNCONFIRMED-VIOLATION property=%s harness=%s (%s) what=%s replay-dir=%s" %
                                 (prop, h.name, how, desc[:500], outdir))
            else:
                # finding witness: expected to fail in the listed way
                fid = h.finding
                fent = [f for f in active_findings if f["id"] == fid]
                viol = res.pop("_viol", [])
                if res["status"] == "fail" and any(re.search(h.expect, e["description"] + " " + e["property"]) for e in viol):
                    other = [e for e in viol if not re.search(h.expect, e["description"] + " " + e["property"])]
                    allowed = getattr(h, "also_allowed", [])
                    other = [e for e in other if not any(re.search(x, e["description"] + " " + e["property"]) for x in allowed)]
                    what = fent[0]["what"] if fent else h.what
                    lines.append("KNOWN-FINDING: property=%s %s [%s]" % (prop, what, fid))
                    if other:
                        # a different violation showed up in the finding harness: report it
                        outdir = os.path.join(replay_root, h.name)
                        shutil.rmtree(outdir, ignore_errors=True)
                        confirmed, how = R.replay(h, other[0], outdir)
                        desc = "; ".join("%s: %s" % (e["property"], e["description"]) for e in other[:3])
                        if confirmed:
                            violations += 1
                            exit_code = 1
                            lines.append("VIOLATION property=%s replay=%s harness=%s what=%s" % (prop, outdir, h.name, desc[:500]))
                        else:
                            exit_code = 3 if exit_code in (0, 2) else exit_code
                            lines.append("UNCONFIRMED-VIOLATION property=%s harness=%s (%s) what=%s" % (prop, h.name, how, desc[:500]))
                elif res["status"] == "pass":
                    lines.append("NOTE property=%s listed finding [%s] no longer reproduces (harness %s passes)" % (prop, fid, h.name))
                elif res["status"] == "inconclusive":
                    exit_code = max(exit_code, 2) if exit_code != 1 else 1
                    lines.append("INCONCLUSIVE property=%s harness=%s %s" % (prop, h.name, "; ".join(res["notes"])[:600]))
                else:
                    # fails, but not in the listed way
                    outdir = os.path.join(replay_root, h.name)
                    shutil.rmtree(outdir, ignore_errors=True)
                    confirmed, how = R.replay(h, viol[0], outdir) if viol else (False, "no trace")
                    desc = "; ".join("%s: %s" % (e["property"], e["description"]) for e in viol[:3])
                    if confirmed:
                        violations += 1
                        exit_code = 1
                        lines.append("VIOLATION property=%s replay=%s harness=%s what=%s" % (prop, outdir, h.name, desc[:500]))
                    else:
                        exit_code = 3 if exit_code in (0, 2) else exit_code
                        lines.append("UNCONFIRMED-VIOLATION property=%s harness=%s (%s) what=%s" % (prop, h.name, how, desc[:500]))
        for l in lines:
            print(l, flush=True)
        wall = time.time() - t0
        if not a.no_evidence and not a.only:
            write_evidence(m, prop, tier, seed, results, wall, violations, traces_validated, lines, active_findings)
        status = {0: "HELD", 1: "VIOLATED", 2: "INCONCLUSIVE", 3: "UNCONFIRMED"}[exit_code]
        print("RESULT property=%s tier=%s status=%s harnesses=%d wall=%.1fs" % (prop, tier, status, len(results), wall), flush=True)
        sys.exit(exit_code)
    finally:
        if not a.keep:
            shutil.rmtree(work, ignore_errors=True)


def write_evidence(m, prop, tier, seed, results, wall, violations, traces_validated, lines, findings):
    meta = getattr(m, "META", {})
    level = meta.get("level", {}).get(tier, meta.get("level", {}).get("quick", "model_checking")) \
        if isinstance(meta.get("level"), dict) else meta.get("level", "model_checking")
    hs = []
    fn_all = set()
    nprops = 0
    npass = 0
    nontriv = 0
    samples = []
    solver_s = 0.0
    for h, r in results:
        r.pop("_viol", None)
        fns = r.pop("functions", [])
        repo_fns = [f for f in fns if not f.startswith("<")]
        fn_all.update(repo_fns)
        nprops += r.get("properties", 0)
        ok = r["status"] == "pass"
        npass += 1 if ok else 0
        hit = [c for c in r.get("covers", []) if c["hit"]]
        if ok and hit:
            nontriv += 1
        solver_s += r.get("wall_s", 0) + r.get("cover_wall_s", 0)
        hs.append(dict(r, functions_in_goto_program=len(fns)))
        samples.append(dict(harness=h.name, what=h.what, bounds=h.bounds, unwind=h.unwind,
                            unwindset=h.unwindset, solver=h.solver, verdict=r["status"],
                            properties_checked=r.get("properties", 0),
                            cover_goals=["%s:%s" % (c["goal"], "hit" if c["hit"] else "MISS") for c in r.get("covers", [])][:12],
                            wall_s=r.get("wall_s")))
    cov = dict(
        harnesses=hs,
        functions_encoded=sorted(fn_all),
        queries_discharged=nprops,
        solver_wall_s=round(solver_s, 1),
        samples=samples,
        bounds=meta.get("bounds", {}).get(tier, meta.get("bounds", "")) if isinstance(meta.get("bounds"), dict) else meta.get("bounds", ""),
        outside_claim=meta.get("outside", ""),
        known_findings=[f["id"] for f in findings],
        report_lines=lines,
    )
    if level == "proof":
        obligations = nprops
        discharged = sum(r.get("properties", 0) - len(r.get("failed", [])) - len(r.get("machinery", []))
                         for h, r in results if r["status"] in ("pass", "fail"))
        cov.update(obligations=obligations, discharged=discharged if all(r["status"] == "pass" or h.expect != "pass" for h, r in results) else discharged,
                   checker_cmd=(results[0][1].get("solver_cmd", "cbmc") if results else "cbmc"),
                   trusted_base=["cbmc 6.11.0 (goto-cc C front end, symex, bit-blasting)", "SAT back end named per harness (kissat/cadical/minisat)",
                                 "environment stubs listed under assumptions"])
    cov.update(evaluations=max(1, len(results)), distinct_nontrivial=max(nontriv, 0),
               rule="one evaluation = one CBMC harness decided over all symbolic inputs within its bounds; "
                    "non-trivial = verdict pass AND its end-of-scenario witness and cover goals were shown reachable by a separate --cover run")
    ev = dict(property_id=prop, tier=tier, seed=seed, level=level, coverage=cov,
              assumptions=meta.get("assumptions", []), wall_s=round(wall, 1), violations=violations)
    os.makedirs(os.path.join(VERIF, "evidence"), exist_ok=True)
    with open(os.path.join(VERIF, "evidence", prop + ".json"), "w") as f:
        json.dump(ev, f, indent=1)


if __name__ == "__main__":
    main()
