#!/usr/bin/env python3
"""setup_cmd: nothing to build (harnesses are compiled per run); verify the tools are present."""
import shutil, subprocess, sys
need = ["cbmc", "goto-cc", "goto-instrument", "kissat", "gcc", "clang++-14", "python3"]
missing = [t for t in need if not shutil.which(t)]
if missing:
    print("missing tools:", missing); sys.exit(1)
print(subprocess.run(["cbmc", "--version"], capture_output=True, text=True).stdout.strip())
print("ok")
