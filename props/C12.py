# C12 — device selection agrees with enumeration; bad input gives errors, not crashes
import importlib.util, os
_s = importlib.util.spec_from_file_location("dm", os.path.join(VERIF, "props", "_dm_common.py")); dm = importlib.util.module_from_spec(_s); _s.loader.exec_module(dm)

COMPILE = "_ZNSt7__cxx1111basic_regexIcNS_12regex_traitsIcEEE10_M_compileEPKcS5_NSt15regex_constants18syntax_option_typeE.0"
def h(mode, name, what, unwind=6, defines=(), timeout=900, solver="cadical", unwindset=None):
    # the translated code is goto-structured: merge points reached by backward jumps count as loops;
    # the default bound covers them and the device loop (NID + 2), the text loops get their own
    us = {"strlen.0": 20, "_ZNSt13runtime_errorC1EPKc.0": 98, "_ZNSt13runtime_errorC1ERKNSt7__cxx1112basic_stringIcSt11char_traitsIcESaIcEEE.0": 98, "has_conversion.0": 98,  COMPILE: 17, "verif_copy_ident.0": 7,  "keep_message.0": 98, "memcpy.0": 40, "memmove.0": 40}
    for k in range(12): us["main.%d" % k] = 17
    us.update(unwindset or {})
    return H(name, "harness/hal/devman.c", repo=[], env=[], defines=["MODE=%d" % mode] + list(defines), pre=dm.pre_dm(VERIF), unwind=unwind, unwindset=us,
             solver=solver, timeout=timeout, mem_gb=int(os.environ.get('VERIF_C12_MEM', '16')), est_gb=int(os.environ.get('VERIF_C12_MEM', '16')) // 4, what=what,
             bounds=dict(devices="0..%s" % [x for x in defines if x.startswith("NID=")][0][4:], name_bytes=2, pattern_bytes="0..%s" % [x for x in defines if x.startswith("PMAX=")][0][5:],
                         index="16 representative values 0..2^32-1", driver_id="9 representative values 0..255", regex_engine="oracle"))

def harnesses(tier, findings):
    big = tier == "thorough"
    nid, pmax = (4, 4) if big else (3, 3)
    d = ["NID=%d" % nid, "PMAX=%d" % pmax]
    return [h(1, "select_pattern_len%d" % pl, "device_manager_select for an arbitrary manager of 0..%d devices, any kind, a pattern of %d arbitrary bytes (NULs anywhere; NULL pointer), malformed-pattern outcome symbolic; regex engine as oracle; exception messages used as logger formats must be free of conversions" % (nid, pl), defines=d + ["PLEN=%d" % pl])
            for pl in range(pmax + 1)] + [
        h(3, "select_first_default", "device_manager_select_first / _select_default for an arbitrary manager and kind", defines=d),
        h(2, "get_index_driver", "device_manager_count / _get(index: any u32) / _get_driver(driver_id: any u8) with NULL handles", defines=d),
    ] + ([] if tier != "enum" else []) + [h(4, "enumerate_p%02x_%s" % (pres, "".join(map(str, nd))),
           "device_manager_init with the driver libraries of mask 0x%02x present (the others absent) announcing %s devices, describe failing for an arbitrary device; then get/get_driver agree with the enumeration; destroy" % (pres, nd),
           unwind=9, defines=d + ["PRESENT=%d" % pres, "NDEVS={%s}" % ",".join(map(str, nd))])
         for pres, nd in ([] if tier != "enum" else [(0x05, (2, 0, 1, 0, 0, 0)), (0x20, (0, 0, 0, 0, 0, 2)), (0x00, (1, 1, 1, 1, 1, 1)), (0x3f, (1, 0, 1, 2, 0, 1))])]

META = dict(
    level="model_checking",
    bounds=dict(quick="managers of 0..3 devices, names of 2 arbitrary bytes, patterns of 0..3 arbitrary bytes; get: 16 representative index values from 0 to 2^32-1, get_driver: 9 representative driver ids",
                thorough="managers of 0..4 devices, patterns of 0..4 bytes"),
    outside="ENUMERATION (DeviceManagerV0::init: six driver_load calls and two growing std::vectors) is NOT decided: the harness for it exists (MODE 4 of harness/hal/devman.c, tier enum) but symex does not get through the vector relocation code with concrete bounds, so which identifiers exist and in which order is an assumption (an arbitrary table) of the selection checks, and the behaviour with absent driver libraries is only covered as far as NULL entries of the driver table are concerned. THE REGULAR-EXPRESSION ENGINE ITSELF (libstdc++ std::regex: ~220 template instantiations, locale facets): which names a given pattern text matches, case folding inside the engine and which texts it rejects are an ORACLE (arbitrary per device / symbolic reject); what is decided is the code around it: pattern text and flags that reach the engine (icase, whole-name mode), enumeration order, kind filter, first hit, empty pattern, NUL trimming, error statuses, no escaping exception. Also outside: dlopen/dlsym in loader.c (driver_load is a stub returning a driver or NULL), names longer than 2 bytes, more than 4 devices",
    assumptions=["C translation of the clang-14 -O1 IR of device.manager.cpp (ir2c.py, unwinding mode), regenerated and differentially validated on every run",
                 "std::string members are translated with the unit (instantiated in its IR); models of operator new/delete, __cxa_* and __throw_* (set the in-flight exception), std::runtime_error (keeps a copy of its message), std::locale (no-op); std::runtime_error keeps its message and records whether it contains a conversion; the logger rejects such a message as its format",
                 "allocation failure is out of scope (operator new never fails)"],
)
