# C12 — device selection agrees with enumeration; bad input gives errors, not crashes
import importlib.util, os
_s = importlib.util.spec_from_file_location("dm", os.path.join(VERIF, "props", "_dm_common.py")); dm = importlib.util.module_from_spec(_s); _s.loader.exec_module(dm)

def h(mode, name, what, unwind=18, defines=(), timeout=900, solver="cadical", unwindset=None):
    return H(name, "harness/hal/devman.c", repo=[], env=[], defines=["MODE=%d" % mode] + list(defines), pre=dm.pre_dm(VERIF), unwind=unwind, unwindset=unwindset or {},
             solver=solver, timeout=timeout, mem_gb=16, what=what)

def harnesses(tier, findings):
    big = tier == "thorough"
    nid, pmax = (4, 4) if big else (3, 3)
    d = ["NID=%d" % nid, "PMAX=%d" % pmax]
    return [
        h(1, "select_pattern", "device_manager_select for an arbitrary manager of 0..%d devices, any kind, any pattern bytes up to %d (NULs anywhere, NULL pointer), malformed-pattern outcome symbolic; regex engine as oracle" % (nid, pmax), defines=d),
        h(3, "select_first_default", "device_manager_select_first / _select_default for an arbitrary manager and kind", defines=d),
        h(2, "get_index_driver", "device_manager_count / _get(index: any u32) / _get_driver(driver_id: any u8) with NULL handles", defines=d),
        h(4, "enumerate_absent_libraries", "device_manager_init with any subset of the 6 driver libraries absent, 0..2 devices each (<= 5 in total), describe failing for one device; then destroy", unwind=9, defines=d),
    ]

META = dict(
    level="model_checking",
    bounds=dict(quick="managers of 0..3 devices, names of 2 arbitrary bytes, patterns of 0..3 arbitrary bytes; enumeration of <= 5 devices over 6 driver slots",
                thorough="managers of 0..4 devices, patterns of 0..4 bytes"),
    outside="THE REGULAR-EXPRESSION ENGINE ITSELF (libstdc++ std::regex: ~220 template instantiations, locale facets): which names a given pattern text matches, case folding inside the engine and which texts it rejects are an ORACLE (arbitrary per device / symbolic reject); what is decided is the code around it: pattern text and flags that reach the engine (icase, whole-name mode), enumeration order, kind filter, first hit, empty pattern, NUL trimming, error statuses, no escaping exception. Also outside: dlopen/dlsym in loader.c (driver_load is a stub returning a driver or NULL), names longer than 2 bytes, more than 4 devices",
    assumptions=["C translation of the clang-14 -O1 IR of device.manager.cpp (ir2c.py, unwinding mode), regenerated and differentially validated on every run",
                 "models of std::string::_M_replace (assignment to an empty small string), operator new/delete, __cxa_* and __throw_* (set the in-flight exception), std::locale (no-op)",
                 "allocation failure is out of scope (operator new never fails)"],
)
