# C14 — raw files contain exactly the appended frames
import importlib.util, os
_s = importlib.util.spec_from_file_location("sc", os.path.join(VERIF, "props", "_storage_common.py")); sc = importlib.util.module_from_spec(_s); _s.loader.exec_module(sc)

COMP = "acquire-core-libs/src/acquire-device-properties/device/props/components.c"

def step(pmax, timeout=900, solver="cadical"):
    return H("raw_append_step_P%d" % pmax, "harness/storage/raw_cycles.c",
             repo=[sc.PLAT, sc.PROPS, sc.HALS, sc.HALD, COMP], env=sc.ENV,
             defines=["MODE=141", "DEV=1", "PMAX=%d" % pmax], cflags=sc.cflags(VERIF), replay_cflags=sc.REPLAY_SYS,
             unwind=max(13, pmax + 5), solver=solver, timeout=timeout, mem_gb=16,
             what="append step: Running raw device with ARBITRARY 64-bit file offset, one append of 0..%d arbitrary bytes, every short-write pattern; each accepted pwrite must be on the own descriptor, at offset0+done, from packet+done" % pmax,
             bounds=dict(packet_bytes="0..%d" % pmax, offset="0..2^62", pwrite="any count in [0,n], up to 3 zero-byte results"))

def framed(timeout=900, solver="cadical"):
    return H("raw_append_frames", "harness/storage/raw_cycles.c",
             repo=[sc.PLAT, sc.PROPS, sc.HALS, sc.HALD, COMP], env=sc.ENV,
             defines=["MODE=143", "DEV=1"], cflags=sc.cflags(VERIF), replay_cflags=sc.REPLAY_SYS,
             unwind=16, solver=solver, timeout=timeout, mem_gb=16,
             what="append step on a packet of 1..2 WHOLE frames (image bytes 0..9 each: every residue mod 8; size field rounded up to 8; consistent shape) at an arbitrary 64-bit offset, every short-write pattern: the file receives every byte of the packet incl. alignment padding, in order",
             bounds=dict(frames="1..2", image_bytes="0..9", offset="0..2^62"))

def cycles(c, napp, pmax, timeout=900, solver="cadical"):
    return H("raw_cycles_C%d_A%d_P%d" % (c, napp, pmax), "harness/storage/raw_cycles.c",
             repo=[sc.PLAT, sc.PROPS, sc.HALS, sc.HALD, COMP], env=sc.ENV,
             defines=["MODE=142", "DEV=1", "CYCLES=%d" % c, "NAPP=%d" % napp, "PMAX=%d" % pmax], cflags=sc.cflags(VERIF),
             replay_cflags=sc.REPLAY_SYS, unwind=13, solver=solver, timeout=timeout, mem_gb=16,
             what="%d x (set symbolic URI spelling; start; <=%d appends of 0..%d bytes; stop) on one raw device via the HAL: every write goes to the URI's file at offset == bytes appended earlier in THIS acquisition; descriptor closed at stop" % (c, napp, pmax),
             bounds=dict(cycles=c, appends_per_cycle=napp, packet_bytes="0..%d" % pmax, uri="a|file://a|b|file://b"))

def harnesses(tier, findings):
    if tier == "quick":
        return [step(4), framed(), cycles(2, 2, 4)]
    return [step(8, 3000), framed(3000), cycles(2, 3, 8, 3000), cycles(2, 4, 4, 3000)]

META = dict(
    level="model_checking",
    bounds=dict(quick="append step: packet 0..4 arbitrary bytes, and 1..2 whole frames with image bytes 0..9, at any 64-bit offset, every short-write pattern (<= 4 short results for the framed packets), one pwrite failing with errno in {EINTR, EIO, EAGAIN, ENOSPC} or writing nothing; skeleton: 2 acquisitions x 2 appends x 0..4 bytes, every URI spelling",
                thorough="append step: packet 0..8 bytes; skeleton: 2 x 3 x 0..8 bytes and 2 x 4 x 0..4 bytes"),
    outside="re-using the SAME path in a later acquisition (file_create does not truncate; the property speaks of other paths); paths other than a/b; packets longer than the bound; frames are arbitrary bytes (raw.c does not parse them)",
    assumptions=["syscall model env/fs_model.c (open/flock/pwrite/close/access/unlink/errno) under the real platform.c",
                 "typed memset/memcpy rewrite and case-split allocation sizes (lib/typed_mem.h, env/alloc_small.c)", "logger empty"],
)
