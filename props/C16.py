# C16 — storage I/O failures are contained; only owned descriptors are used (raw + trash here; tiff via the IR route)
import importlib.util, os
_s = importlib.util.spec_from_file_location("sc", os.path.join(VERIF, "props", "_storage_common.py")); sc = importlib.util.module_from_spec(_s); _s.loader.exec_module(sc)

def life(dev, lh, timeout=900, solver="cadical"):
    name = "raw" if dev == 1 else "trash"
    return H("%s_life_L%d" % (name, lh), "harness/storage/raw_cycles.c",
             repo=[sc.PLAT, sc.PROPS, sc.HALS, sc.HALD] + ([] if dev == 1 else [sc.TRASH]), env=sc.ENV,
             defines=["MODE=16", "DEV=%d" % dev, "LH=%d" % lh, "PMAX=2"], cflags=sc.cflags(VERIF), replay_cflags=sc.REPLAY_SYS,
             unwind=13, solver=solver, timeout=timeout, mem_gb=16,
             what="%s device via the HAL: history template (LH=%d rounds) set? start? append? append? stop? stop? [set? start? append? stop?] close, every call optional (symbolic), with a failing open and one-shot / persistent pwrite failures at symbolic indices" % (name, lh),
             bounds=dict(calls=lh, open_fail_index="-1..4", flock_fail_index="-1..2", pwrite_fail_index="-1..6 one-shot and persistent", packet_bytes="1..2"))

_s2 = importlib.util.spec_from_file_location("tc", os.path.join(VERIF, "props", "_tiff_common.py")); tc = importlib.util.module_from_spec(_s2); _s2.loader.exec_module(tc)

def tiff_life(timeout=1500):
    fsz = 16 + 1 * (8 + 320 + 8 + 8 + 8 + 16 + 16) + 64
    h = tc.tiff_h(H, VERIF, "tiff_life", ["MODE=16", "NFRAMES=1", "DESC=12", "FILE_URI=0"], unwind=18, timeout=timeout,
                  unwindset={"file_write.0": fsz + 1}, rec_violation=True)
    h.flags = ["--unwindset", "dummy:1"] if False else []
    h.what = "tiff.cpp (clang IR -> C, validated) through the HAL: set? start? append? append? stop? stop? close, every call optional (symbolic), failing file_create and one-shot/persistent file_write failures at symbolic indices; recursion bounded by unwinding assertions"
    h.bounds = dict(calls="sub-sequences of set,start,append,append,stop,stop + close", write_fail_index="-1..8 one-shot and persistent", create_fail="yes/no")
    return h

def tiffjson_life(timeout=1500, meta=1, mask=None):
    fsz = 16 + 1 * (8 + 320 + 8 + 8 + 8 + 16 + 16) + 64
    h = tc.tiff_h(H, VERIF, "tiffjson_life_m%d" % meta, ["MODE=16", "NFRAMES=1", "DESC=12", "FILE_URI=0", "SBS_META=%d" % meta, "LIFE_SHORT=1"] + (["LIFE_MASK=%d" % mask] if mask is not None else []), unwind=18, timeout=timeout,
                  unwindset={"file_write.0": fsz + 1}, rec_violation=True, composite=True)
    h.est_gb = 18
    if mask is not None:
        h.name += "_k%x" % mask
    h.what = "tiff-json composite (init/append/stop/destroy translated from side-by-side-tiff.cpp, set/start modelled after the source, guarded by a source-text check) around the translated tiff writer, through the HAL: set? start? append? stop? close with failing file_create and write failures at symbolic indices (metadata.json and data.tif)"
    h.bounds = dict(calls="sub-sequences of set,start,append,stop + close", write_fail_index="-1..8 one-shot and persistent", create_fail="yes/no", metadata="present" if meta else "absent")
    return h

def harnesses(tier, findings):
    if tier == "prefix":
        # sanity: the hand model of the composite's start WITHOUT the state assignments of fix 51bb9bf must fail
        h = tiffjson_life(900, 1, 0xF); h.defines.append("SBS_PRE_FIX=1"); h.name += "_prefix"
        return [h]
    comp = [tiffjson_life(900, 1, m) for m in range(16)] + [tiffjson_life(900, 0)]
    if tier == "quick":
        return [life(1, 2, 1500), life(2, 1), tiff_life()] + comp
    return [life(1, 2, 3000), life(2, 2, 3000), tiff_life(3000)] + comp + [tiffjson_life(900, 0, m) for m in range(16)]

META = dict(
    level="model_checking",
    bounds=dict(quick="raw and trash: every sub-sequence of set,start,append,append,stop,stop then close; every open/pwrite fault index", thorough="every sub-sequence of set,start,append,append,stop,stop,set,start,append,stop then close"),
    outside="tiff-json: side_by_side_tiff_set/_start (std::filesystem) are modelled by hand after the source (the run refuses when that text changes): folder creation and path handling are not decided, and the life-cycle template of the composite is the short one (set? start? append? stop? close, all 16 sub-sequences as separate instances); fault kinds other than open()==-1, pwrite()==-1 and pwrite()==0; more than one device sharing descriptors",
    assumptions=["syscall model env/fs_model.c; open returns the lowest free descriptor number (POSIX)", "typed memset/memcpy rewrite and case-split allocation sizes", "logger empty"],
)
