# C13 — StorageProperties copies are deep, complete, independent; each allocation freed once
REPO_SRCS = ["acquire-core-libs/src/acquire-device-properties/device/props/storage.c"]
ENV = ["env/logger_stub.c", "lib/mem_loops.c"]
CFLAGS = ["-Drealloc=verif_realloc", "-Dmalloc=verif_malloc", "-include", VERIF + "/lib/typed_mem.h"]

def copy(a_init, nda, ndb, d, timeout=1500):
    return H("copy_A%d_da%d_db%d_dir%d" % (a_init, nda, ndb, d), "harness/props/copy_scn.c", repo=REPO_SRCS, env=ENV,
             defines=["SCN=1", "A_INIT=%d" % a_init, "NDA=%d" % nda, "NDB=%d" % ndb, "DIR=%d" % d], cflags=CFLAGS,
             unwind=6, flags=["--memory-leak-check"], solver="cadical", timeout=timeout, mem_gb=16,
             what="source built by init(+keys)(+set_dimension), destination %s; A<-B, field/independence checks, mutate B, second copy %s, destroy both; heap + leak checks"
                  % ("init'ed with %d dims" % nda if a_init else "zero-initialised", "A<-B" if d else "B<-A"),
             bounds=dict(string_bytes="NULL/0..3 symbolic, terminated or not", dims_src=ndb, dims_dst=nda, copies=2))

def setters(nd, timeout=1500):
    return H("setters_d%d" % nd, "harness/props/copy_scn.c", repo=REPO_SRCS, env=ENV,
             defines=["SCN=2", "NDA=%d" % nd], cflags=CFLAGS, unwind=6, flags=["--memory-leak-check"], solver="cadical",
             timeout=timeout, mem_gb=16,
             what="init then every string setter twice (grow/shrink/NULL/empty/unterminated) and set_dimension twice on a symbolic slot; destroy; heap + leak checks",
             bounds=dict(string_bytes="NULL/0..3", dims=nd, rounds=2))

def harnesses(tier, findings):
    if tier == "quick":
        return [copy(1, 1, 1, 1), copy(0, 0, 2, 0), copy(1, 2, 0, 1), setters(1)]
    hs = [copy(a, da, db, d, 3000) for a in (0, 1) for da in ((0,) if not a else (0, 1, 2)) for db in (0, 1, 2) for d in (0, 1)]
    return hs + [setters(0, 3000), setters(1, 3000), setters(2, 3000)]

META = dict(
    level="model_checking",
    bounds=dict(quick="4 call shapes (copy into init'ed/zero destination with 0..2 dims each side, second copy in either direction; setters twice); all strings symbolic: NULL / empty / 1..3 bytes, terminated or not",
                thorough="all 24 copy shapes (destination zero or init'ed with 0..2 dims, source 0..2 dims, second copy either direction) + setters with 0..2 dims"),
    outside="self-copy; use after destroy without re-init; init on an object that still owns allocations; dimension names not NUL-terminated inside the given length (strlen precondition); allocation failure; strings longer than 3 bytes; more than 2 dimensions; sequences longer than the scripted shapes (a fully symbolic operation sequence did not reach a verdict: 19 GB / 15 min at L=3)",
    assumptions=["realloc = malloc+free without content copy (the code overwrites the whole buffer afterwards)",
                 "malloc never fails; allocation sizes are case-split into the concrete sizes possible within the bounds",
                 "memset/memcpy on struct-typed pointers are rewritten to typed assignments and on byte pointers to byte loops (lib/typed_mem.h); padding bytes are not modelled",
                 "logger has an empty body"],
)
