# C02 — writer never gets memory a reader holds or has not consumed (same harness family as C01)
import importlib.util, os
_spec = importlib.util.spec_from_file_location("c01", os.path.join(VERIF, "props", "C01.py"))
_c01 = importlib.util.module_from_spec(_spec); _c01.H = H; _c01.VERIF = VERIF; _c01.REPO = REPO
_spec.loader.exec_module(_c01)

def harnesses(tier, findings):
    keep = ("write_map", "write_unmap", "read_map", "read_unmap", "read_map_join", "new")
    hs = [h for h in _c01._harnesses(tier, findings) if any(h.name.startswith("step_%s_R" % k) for k in keep) or h.name.startswith("hist")]
    return hs

META = dict(_c01.META)
