import os, sys
def pre_tiff(VERIF):
    def pre(h, d, runner):
        sys.path.insert(0, os.path.join(VERIF, "ir2c"))
        import gen
        repo = os.environ.get("VERIF_REPO", "/repo")
        c = gen.translate(repo, "acquire-driver-common/src/storage/tiff.cpp", d, "tiff")
        n = gen.validate_tiff(repo, c, d)
        h.generated = [os.path.basename(c)]
        h.what_extra = "translation validated on %d scenarios (byte-identical files)" % n
    return pre
HAL = "acquire-core-libs/src/acquire-device-hal/device/hal/"
def tiff_h(H, VERIF, name, defines, unwind, timeout=1500, solver="cadical", mem=24, unwindset=None, rec_violation=False):
    return H(name, "harness/storage/tiff_file.c", repo=[HAL + "storage.c", HAL + "driver.c", "acquire-core-libs/src/acquire-device-properties/device/props/components.c"],
             env=[], defines=defines, pre=pre_tiff(VERIF), unwind=unwind, unwindset=unwindset or {}, solver=solver, timeout=timeout, mem_gb=mem,
             recursion_is_violation=rec_violation)
