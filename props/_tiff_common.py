import os, sys
def pre_tiff(VERIF):
    def pre(h, d, runner):
        sys.path.insert(0, os.path.join(VERIF, "ir2c"))
        import gen
        repo = os.environ.get("VERIF_REPO", "/repo")
        c = gen.translate(repo, "acquire-driver-common/src/storage/tiff.cpp", d, "tiff")
        n = gen.validate_tiff(repo, c, d)
        h.generated = [os.path.basename(c)]
        h.what_extra = "translation validated on %d scenarios (byte-identical files)" % n
    return pre
HAL = "acquire-core-libs/src/acquire-device-hal/device/hal/"
def tiff_h(H, VERIF, name, defines, unwind, timeout=1500, solver="cadical", mem=24, unwindset=None, rec_violation=False, composite=False, full=False):
    if composite:
        h = tiff_h(H, VERIF, name, defines + ["DEV=2"] + (["SBS_FULL=1"] if full else []), unwind, timeout, solver, mem, unwindset, rec_violation)
        h.pre = pre_sbs(VERIF, full)
        if full:
            for k, v in (("path_is.0", 17), ("_ZNKSt10filesystem7__cxx114path11parent_pathEv.0", 17), ("_ZNKSt10filesystem7__cxx114path11parent_pathEv.1", 17), ("_ZNSt10filesystem7__cxx114pathdVERKS1_.0", 17), ("strlen.0", 20)):
                h.unwindset.setdefault(k, v)
        return h
    unwindset = dict(unwindset or {})
    for k, v in (("vsnprintf.0", 142), ("vsnprintf.1", 142), ("vsnprintf.2", 142), ("key_before.0", 22)):
        unwindset.setdefault(k, v)
    return H(name, "harness/storage/tiff_file.c", repo=[HAL + "storage.c", HAL + "driver.c", "acquire-core-libs/src/acquire-device-properties/device/props/components.c"],
             env=[], defines=defines, pre=pre_tiff(VERIF), unwind=unwind, unwindset=unwindset or {}, solver=solver, timeout=timeout, mem_gb=mem,
             recursion_is_violation=rec_violation)

SBS_WANT = ["side_by_side_tiff_init", "_ZN12_GLOBAL__N_124side_by_side_tiff_appendEP7StoragePK10VideoFramePm", "_ZN12_GLOBAL__N_122side_by_side_tiff_stopEP7Storage",
            "_ZN12_GLOBAL__N_125side_by_side_tiff_destroyEP7Storage", "_ZN12_GLOBAL__N_126side_by_side_tiff_get_metaEPK7StorageP23StoragePropertyMetadata",
            "_ZN12_GLOBAL__N_121side_by_side_tiff_getEPK7StorageP17StorageProperties", "_ZN12_GLOBAL__N_137side_by_side_tiff_reserve_image_shapeEP7StoragePK10ImageShape"]

def sbs_step3_text(repo):
    """normalised source text of steps 2-3 of side_by_side_tiff_start (the part the harness models by hand)"""
    import re
    src = open(os.path.join(repo, "acquire-driver-common/src/storage/side-by-side-tiff.cpp")).read()
    a = src.index("// 2. write metadata.json file")
    b = src.index("} catch", a)
    return re.sub(r"\s+", " ", src[a:b]).strip()

def pre_sbs(VERIF, full=False):
    base = pre_tiff(VERIF)
    def pre(h, d, runner):
        base(h, d, runner)
        import gen, subprocess
        repo = os.environ.get("VERIF_REPO", "/repo")
        exp = open(os.path.join(VERIF, "harness/storage/sbs_start_step3.expected")).read().strip()
        got = sbs_step3_text(repo) if not full else exp
        if got != exp:
            raise RuntimeError("side_by_side_tiff_start (steps 2-3) differs from the text the harness models by hand; update SBS_START_STEP3 in harness/storage/tiff_file.c and sbs_start_step3.expected")
        incs = ["-I" + os.path.join(repo, i) for i in gen.INC]
        ll = os.path.join(d, "sbs.ll"); c = os.path.join(d, "sbs_gen.c")
        gen.sh(["clang++-14", "-std=gnu++20", "-O1", "-fno-vectorize", "-fno-slp-vectorize", "-fno-unroll-loops", "-DNDEBUG"] + incs +
               ["-S", "-emit-llvm", "-o", ll, os.path.join(repo, "acquire-driver-common/src/storage/side-by-side-tiff.cpp")])
        env = dict(os.environ); env["IR2C_RPO"] = "1"
        want = SBS_WANT
        if full:
            # the whole unit (set and start included) in unwinding mode; std::filesystem is modelled by the harness
            import re
            env["IR2C_EH"] = "1"; env["IR2C_TYPED_ALLOCA"] = "1"
            want = [mm.group(1).strip('"') for mm in (re.search(r'@("[^"]+"|[\w.$]+)\(', l) for l in open(ll) if l.startswith("define ")) if mm]
            want = [w for w in want if w != "__clang_call_terminate" and not w.startswith("_GLOBAL__sub_I") and not w.startswith("__cxx_global_var_init")]
        gen.sh([sys.executable, os.path.join(VERIF, "ir2c", "ir2c.py"), ll, c] + want, env=env)
        # the composite object is handed out by the harness as a TYPED static object (see tiff_file.c)
        txt = open(c).read()
        assert "malloc(496ULL)" in txt, "size of struct SideBySideTiff changed: update struct sbs in the harness"
        open(c, "w").write(txt.replace("malloc(496ULL)", "verif_sbs_alloc(496ULL)").replace("#include <stdlib.h>", "#include <stdlib.h>\nchar* verif_sbs_alloc(uint64_t);"))
        h.generated = h.generated + ["sbs_gen.c"]
    return pre
