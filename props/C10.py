# C10 — frame averaging emits the exact mean of each window
import importlib.util, os
_s = importlib.util.spec_from_file_location("rc", os.path.join(VERIF, "props", "_runtime_common.py")); rc = importlib.util.module_from_spec(_s); _s.loader.exec_module(rc)
TYPES = {0: "u8", 1: "u16", 2: "i8", 3: "i16", 5: "u10", 6: "u12", 7: "u14"}

def flt(scn, k, nmax, ty, npx=1, polls=3, envmax=12, timeout=1500, solver="cadical"):
    return H("filter_%s_k%d_N%d_%s_px%d" % ("mean" if scn == 1 else "flush", k, nmax, TYPES[ty], npx), "harness/runtime/filter_unit.c",
             repo=[rc.RT + "frame_iterator.c", rc.RT + "throttler.c", rc.COMP], env=rc.ENV_UNIT + ["env/chan_contract.c"],
             defines=["SCN=%d" % scn, "K=%d" % k, "NMAX=%d" % nmax, "TYPE=%d" % ty, "NPX=%d" % npx, "POLL_MAX=%d" % polls, "ENV_MAX=%d" % envmax, "TAPE_BYTES=%d" % ((nmax + 2) * 112), "WRITE_UNIT=104"],
             cflags=rc.cflags(VERIF), unwind=nmax + 3, unwindset={"min_consumed.0": 9, "tape_at.0": 12, "main.0": (nmax // k + 2) * 112 + 2},
             solver=solver, timeout=timeout, mem_gb=24,
             what="real video_filter_thread (k=%d) + frame_iterator + two real channels; environment writer commits <=%d %s frames with symbolic pixels, sink reader checks every emitted f32 frame against (float)S*(1/k); output ring holds one frame and starts with arbitrary bytes%s"
                  % (k, nmax, TYPES[ty], "; sink abstraction stops after the first empty map once told to stop (flush race)" if scn == 2 else ""),
             bounds=dict(k=k, frames="1..%d" % nmax, type=TYPES[ty], pixels=npx, polls=polls, env_steps=envmax))

def harnesses(tier, findings):
    if tier == "probe":
        return [flt(1, 2, 3, 0, timeout=900), flt(2, 2, 2, 0, timeout=900), flt(1, 2, 5, 0, timeout=900)]
    if tier == "quick":
        return [flt(1, 2, 4, 0), flt(2, 2, 3, 0)]
    return [flt(1, 2, 5, 0, timeout=3000), flt(1, 3, 4, 1, timeout=3000), flt(1, 2, 4, 2, timeout=3000), flt(1, 2, 4, 3, timeout=3000),
            flt(1, 2, 3, 1, npx=2, timeout=3000), flt(2, 2, 4, 0, timeout=3000), flt(2, 3, 4, 1, timeout=3000)]

META = dict(
    level="model_checking",
    bounds=dict(quick="k=2, u8, 1 pixel, N<=4 input frames (mean/count/order) and N<=3 (flush race)", thorough="k in {2,3}, u8/u16/i8/i16, up to 2 pixels, N<=5"),
    outside="k>3; more than 2 pixels per image; f32 input; shape changes inside a window; schedules needing more than POLL_MAX polls of the filter loop",
    assumptions=["environment writer/sink are abstractions of the source and sink threads justified by the source/sink unit harnesses", "boundary scheduling (B)", "float arithmetic bit-blasted by CBMC (IEEE single)"],
)
