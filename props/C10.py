# C10 — frame averaging emits the exact mean of each window
import importlib.util, os
_s = importlib.util.spec_from_file_location("rc", os.path.join(VERIF, "props", "_runtime_common.py")); rc = importlib.util.module_from_spec(_s); _s.loader.exec_module(rc)
TYPES = {0: "u8", 1: "u16", 2: "i8", 3: "i16", 5: "u10", 6: "u12", 7: "u14"}

def flt(scn, k, nmax, ty, npx=1, polls=3, envmax=12, timeout=1500, solver="cadical"):
    return H("filter_%s_k%d_N%d_%s_px%d" % ("mean" if scn == 1 else "flush", k, nmax, TYPES[ty], npx), "harness/runtime/filter_unit.c",
             repo=[rc.RT + "frame_iterator.c", rc.RT + "throttler.c", rc.COMP], env=rc.ENV_UNIT + ["env/chan_contract.c"],
             defines=["SCN=%d" % scn, "K=%d" % k, "NMAX=%d" % nmax, "TYPE=%d" % ty, "NPX=%d" % npx, "POLL_MAX=%d" % polls, "ENV_MAX=%d" % envmax, "TAPE_BYTES=%d" % ((nmax + 2) * 112), "WRITE_UNIT=104"],
             cflags=rc.cflags(VERIF), unwind=nmax + 3, unwindset={"min_consumed.0": 9, "tape_at.0": 12, "main.0": (nmax // k + 2) * 112 + 2},
             solver=solver, timeout=timeout, mem_gb=24,
             what="real video_filter_thread (k=%d) + frame_iterator + two real channels; environment writer commits <=%d %s frames with symbolic pixels, sink reader checks every emitted f32 frame against (float)S*(1/k); output ring holds one frame and starts with arbitrary bytes%s"
                  % (k, nmax, TYPES[ty], "; sink abstraction stops after the first empty map once told to stop (flush race)" if scn == 2 else ""),
             bounds=dict(k=k, frames="1..%d" % nmax, type=TYPES[ty], pixels=npx, polls=polls, env_steps=envmax))

def kern(k, ty, npx=1, timeout=900, solver="kissat"):
    return H("filter_kernel_k%d_%s_px%d" % (k, TYPES[ty], npx), "harness/runtime/filter_unit.c",
             repo=[rc.RT + "frame_iterator.c", rc.RT + "throttler.c", rc.COMP], env=rc.ENV_UNIT + ["env/chan_contract.c"],
             defines=["SCN=3", "K=%d" % k, "TYPE=%d" % ty, "NPX=%d" % npx, "TAPE_BYTES=208", "WRITE_UNIT=104"], cflags=rc.cflags(VERIF),
             unwind=max(k, npx) + 2, unwindset={"tape_at.0": 12, "min_consumed.0": 9}, solver=solver, timeout=timeout, mem_gb=16,
             what="arithmetic kernel: real accumulate() x k on fully symbolic %s pixels into a zeroed f32 frame, real normalize(1/k): every pixel == (float)S*(1.0f/k) (IEEE single, bit-blasted)" % TYPES[ty],
             bounds=dict(k=k, type=TYPES[ty], pixels=npx, values="full range of the type"))

def sched(scn, k, nmax, **kw):
    kw.setdefault("solver", "kissat")
    kw.setdefault("envmax", 8)
    kw.setdefault("polls", 2)
    h = flt(scn, k, nmax, 0, **kw)
    h.drop_flags = ["--pointer-overflow-check"]
    h.defines.append("CONCRETE_PX=1")
    h.name += "_cpx"
    h.what += "; pixel values concrete and distinct per frame (powers of two), schedules symbolic"
    return h

def harnesses(tier, findings):
    if tier == "probe":
        return [sched(1, 2, 3, timeout=900), sched(2, 2, 2, timeout=900), sched(1, 2, 2, timeout=900, solver="cadical")]
    if tier == "quick":
        return [kern(2, 0), kern(2, 1), kern(2, 3)]
    if tier == "sched":
        return [sched(1, 2, 4), sched(2, 2, 3)]
    return [sched(1, 2, 5, timeout=3000), sched(1, 3, 4, timeout=3000), sched(2, 2, 4, timeout=3000), sched(2, 3, 4, timeout=3000)] + \
           [kern(k, ty, timeout=3000) for k in (2, 3) for ty in (0, 1, 2, 3, 5, 6, 7)] + [kern(2, 1, npx=2, timeout=3000)]

META = dict(
    level="model_checking",
    bounds=dict(quick="k=2, u8, 1 pixel, N<=4 input frames (mean/count/order) and N<=3 (flush race)", thorough="k in {2,3}, u8/u16/i8/i16, up to 2 pixels, N<=5"),
    outside="k>3; more than 2 pixels per image; f32 input; shape changes inside a window; schedules needing more than POLL_MAX polls of the filter loop",
    assumptions=["environment writer/sink are abstractions of the source and sink threads justified by the source/sink unit harnesses", "boundary scheduling (B)", "float arithmetic bit-blasted by CBMC (IEEE single)"],
)
