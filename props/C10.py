# C10 — frame averaging emits the exact mean of each window
import importlib.util, os
_s = importlib.util.spec_from_file_location("rc", os.path.join(VERIF, "props", "_runtime_common.py")); rc = importlib.util.module_from_spec(_s); _s.loader.exec_module(rc)
TYPES = {0: "u8", 1: "u16", 2: "i8", 3: "i16", 5: "u10", 6: "u12", 7: "u14"}

def flt(scn, k, nmax, ty, npx=1, polls=3, envmax=12, timeout=1500, solver="cadical"):
    return H("filter_%s_k%d_N%d_%s_px%d" % ("mean" if scn == 1 else "flush", k, nmax, TYPES[ty], npx), "harness/runtime/filter_unit.c",
             repo=[rc.RT + "frame_iterator.c", rc.RT + "throttler.c", rc.COMP], env=rc.ENV_UNIT + ["env/chan_contract.c"],
             defines=["SCN=%d" % scn, "K=%d" % k, "NMAX=%d" % nmax, "TYPE=%d" % ty, "NPX=%d" % npx, "POLL_MAX=%d" % polls, "ENV_MAX=%d" % envmax, "TAPE_BYTES=%d" % ((nmax + 1) * 104), "WRITE_UNIT=104",
                      "TAPE0_PX_T=float", "TAPE1_PX_T=%s" % ("uint8_t" if ty in (0, 2) else "uint16_t")],
             cflags=rc.cflags(VERIF), unwind=nmax + 3, unwindset=dict([("min_consumed.0", 9), ("tape_at.0", 12), ("memcmp.0", 34), ("verif_memset_b.0", 4 * npx + 6), ("verif_memcpy_b.0", 4 * npx + 6)] +
                                             [("process_data.%d" % i, nmax + 2) for i in range(3)] + [("video_filter_thread.%d" % i, max(polls, nmax) + 3) for i in range(5)] +
                                             [("accumulate.%d" % i, npx + 2) for i in range(4)] + [("normalize.0", npx + 2)]),
             solver=solver, timeout=timeout, mem_gb=24,
             what="real video_filter_thread (k=%d) + frame_iterator + two real channels; environment writer commits <=%d %s frames with symbolic pixels, sink reader checks every emitted f32 frame against (float)S*(1/k); output ring holds one frame and starts with arbitrary bytes%s"
                  % (k, nmax, TYPES[ty], "; sink abstraction stops after the first empty map once told to stop (flush race)" if scn == 2 else ""),
             bounds=dict(k=k, frames="1..%d" % nmax, type=TYPES[ty], pixels=npx, polls=polls, env_steps=envmax))

def kern(k, ty, npx=1, timeout=900, solver="kissat"):
    return H("filter_kernel_k%d_%s_px%d" % (k, TYPES[ty], npx), "harness/runtime/filter_unit.c",
             repo=[rc.RT + "frame_iterator.c", rc.RT + "throttler.c", rc.COMP], env=rc.ENV_UNIT + ["env/chan_contract.c"],
             defines=["SCN=3", "K=%d" % k, "TYPE=%d" % ty, "NPX=%d" % npx, "TAPE_BYTES=208", "WRITE_UNIT=104"], cflags=rc.cflags(VERIF),
             unwind=max(k, npx) + 2, unwindset={"tape_at.0": 12, "min_consumed.0": 9}, solver=solver, timeout=timeout, mem_gb=16,
             what="arithmetic kernel: real accumulate() x k on fully symbolic %s pixels into a zeroed f32 frame, real normalize(1/k): every pixel == (float)S*(1.0f/k) (IEEE single, bit-blasted)" % TYPES[ty],
             bounds=dict(k=k, type=TYPES[ty], pixels=npx, values="full range of the type"))

def sched(scn, k, arrivals, stop_same=1, chunk=8, **kw):
    """arrivals: tuple of frames arriving per sleep; chunk: frames returned per read_map at most"""
    kw.setdefault("solver", "cadical")
    kw.setdefault("envmax", 8)
    n = sum(arrivals)
    kw.setdefault("polls", len(arrivals) + 1)
    h = flt(scn, k, n, 0, **kw)
    code = sum(g << (4 * i) for i, g in enumerate(arrivals))
    h.defines += ["ARRIVALS=%d" % code, "STOP_SAME=%d" % stop_same, "CHAN_CHUNK=%d" % chunk]
    h.name = "filter_%s_k%d_arr%s_s%d_c%d" % ("mean" if scn == 1 else "flush", k, "".join(map(str, arrivals)), stop_same, chunk)
    h.what += "; input frames arrive in groups %s per sleep (fixed per instance), stop request %s; the sink's timing is symbolic" % (list(arrivals), "with the last group" if stop_same else "one sleep later")
    h.drop_flags = ["--pointer-overflow-check"]
    h.defines.append("CONCRETE_PX=1")
    h.name += "_cpx"
    h.what += "; pixel values concrete and distinct per frame (powers of two), schedules symbolic"
    return h

def shape_change(k, arrivals, at, chunk, npx=2):
    h = sched(1, k, arrivals, 1, chunk, npx=npx)
    h.defines.append("SHAPE_CHANGE_AT=%d" % at)
    h.name = h.name.replace("filter_mean", "filter_shapechange%d" % at)
    h.what = "the camera's shape changes at frame %d (same pixel count, transposed): every emitted frame is the exact mean of k consecutive frames of one shape, with the id of the first and that shape, ids increasing, no window mixes shapes; " % at + h.what
    return h

def compositions(n, parts):
    """all tuples of `parts` non-negative ints summing to n (first part >= 1)"""
    if parts == 1:
        return [(n,)]
    out = []
    for first in range(0, n + 1):
        for rest in compositions(n - first, parts - 1):
            out.append((first,) + rest)
    return [c for c in out if c[0] >= 1]

def sched_family(k, ns, max_parts, timeout=600):
    hs = []
    for n in ns:
        for parts in range(1, max_parts + 1):
            for arr in compositions(n, parts):
                if parts > 1 and arr[-1] == 0:
                    continue
                for ss in (0, 1):
                    for chunk in (1, 8):
                        hs.append(sched(1, k, arr, ss, chunk, timeout=timeout))
    return hs

def harnesses(tier, findings):
    if tier == "probe":
        return [sched(1, 2, (2,), timeout=600), sched(1, 2, (3,), chunk=1, timeout=600), sched(1, 2, (2, 1), timeout=600), sched(2, 2, (4,), chunk=1, timeout=600)]
    if tier == "quick":
        api = rc.inst(H, VERIF, 2, 2, 1, 0, 1)
        api.what = "hand-over at the end of an acquisition (sink told to stop only after the filter thread finished), whole-runtime coarse run: " + api.what
        return [kern(2, 0), kern(2, 1), kern(2, 3)] + sched_family(2, (2, 3, 4), 2) + [sched(2, 2, (4,), 1, 1), sched(2, 2, (2, 1), 1, 8), sched(2, 2, (3,), 0, 8), api] + [shape_change(2, (5,), 1, 8), shape_change(2, (2, 3), 1, 1), shape_change(2, (5,), 3, 8)]
    # k=3 with i16 pixels did not reach a verdict in 50 min (kissat); it is left out and listed under 'outside'
    return [kern(2, ty, timeout=3000) for ty in (0, 1, 2, 3, 5, 6, 7)] + [kern(3, ty, timeout=3000) for ty in (0, 1, 2, 5, 6, 7)] + [kern(2, 1, npx=2, timeout=3000)] + \
           sched_family(2, (2, 3, 4, 5), 3) + sched_family(3, (3, 4, 6), 2) + \
           [sched(2, 2, a, ss, c) for a in ((4,), (2, 2), (1, 3), (5,)) for ss in (0, 1) for c in (1, 8)] + [shape_change(2, a, at, c) for a in ((5,), (2, 3), (1, 4)) for at in (1, 2, 3) for c in (1, 8)]

META = dict(
    level="model_checking",
    bounds=dict(quick="kernel: k=2, u8/u16/i16, all pixel values; schedules: every arrival pattern of N in {2,3,4} input frames over <=2 sleeps x stop with/after the last group x chunking {1 frame per map, everything}, sink timing symbolic, output ring one frame deep and pre-filled with arbitrary floats",
                thorough="kernel: k in {2,3}, all 7 integer types, 2 pixels; schedules: N<=5 over <=3 sleeps, k=3"),
    outside="k>3; the arithmetic kernel for k=3 with i16 pixels (no verdict in 50 min); more than 2 pixels per image; f32 input; what becomes of the window that is open when the camera's shape changes (only the frames emitted after and before it are constrained); schedules needing more than POLL_MAX polls of the filter loop",
    assumptions=["environment writer/sink are abstractions of the source and sink threads justified by the source/sink unit harnesses", "boundary scheduling (B)", "float arithmetic bit-blasted by CBMC (IEEE single)"],
)
