# C18 — simulated cameras deliver fresh, increasing, trigger-gated frames; stop unblocks
COMP = "acquire-core-libs/src/acquire-device-properties/device/props/components.c"
ENV = ["env/plat_seq.c", "env/logger_stub.c"]

def hh(scn, name, isr=False, iters=3, envmax=6, timeout=1500, solver="cadical"):
    return H(name, "harness/simcam/sched.c", repo=[COMP], env=ENV, defines=["SCN=%d" % scn, "ITER=%d" % iters, "ENV_MAX=%d" % envmax],
             cflags=["-mavx2"], unwind=max(iters + 2, 9), isr="env_step" if isr else None, solver=solver, timeout=timeout, mem_gb=16,
             drop_flags=["--pointer-overflow-check"] if isr else [],
             what={1: "real simcam_get_frame as main flow, steps of simcam_stop and an abstract streamer inserted before every read of the running flag / frame counters (ISR); get_frame must return",
                   2: "real simcam_stop run over recording stubs: flag cleared, locked trigger section, notify(frame_ready), join, in that order",
                   3: "real streamer thread (<= %d iterations) vs. real simcam_execute_trigger, a frame consumer and stop at every lock/clock boundary: ids strictly increasing, trigger gating, start resets counters" % iters}[scn],
             bounds=dict(streamer_iterations=iters, env_steps=envmax))

def harnesses(tier, findings):
    if tier == "quick":
        return [hh(1, "stop_unblocks_get_frame", isr=True, envmax=5), hh(2, "stop_shape"), hh(3, "streamer_ids_triggers", iters=2, envmax=6)]
    return [hh(1, "stop_unblocks_get_frame", isr=True, envmax=6, timeout=3000), hh(2, "stop_shape"), hh(3, "streamer_ids_triggers", iters=3, envmax=8, timeout=3000)]

META = dict(
    level="model_checking",
    bounds=dict(quick="get_frame vs stop: <=5 environment steps, preemption before every shared read; streamer: <=2 iterations, <=6 environment steps, trigger enabled or not", thorough="streamer <=3 iterations, <=8 steps"),
    outside="schedules that need the real get_frame loop and the real streamer loop to block on each other repeatedly (the consumer in the streamer harness is a two-step abstraction of get_frame; the streamer in the get_frame harness is abstract); rendering and binning (C17)",
    assumptions=["lock/cv sleep model (a broadcast wakes only a thread that is already asleep)", "simcam_stop hand-split into its steps for the ISR harness, tied to the real function by the stop_shape harness", "camera kind Empty, binning 1, 4x1 u8"],
)
