# C05 — frame packets are whole, exactly chained, 8-byte aligned frames
import importlib.util, os
_s = importlib.util.spec_from_file_location("rc", os.path.join(VERIF, "props", "_runtime_common.py")); rc = importlib.util.module_from_spec(_s); _s.loader.exec_module(rc)
_spec = importlib.util.spec_from_file_location("c01", os.path.join(VERIF, "props", "C01.py"))
_c01 = importlib.util.module_from_spec(_spec); _c01.H = H; _c01.VERIF = VERIF; _c01.REPO = REPO
_spec.loader.exec_module(_c01)
SRC_UNIT = [rc.RT + "channel.c", rc.HAL + "camera.c", rc.HAL + "driver.c", "acquire-core-libs/src/acquire-device-properties/device/props/components.c"]
ENV = ["env/plat_seq.c", "env/logger_stub.c", "env/devstr_stub.c", "lib/mem_loops.c"]

def framing(timeout=900):
    return H("source_framing", "harness/runtime/source_unit.c", repo=SRC_UNIT, env=ENV, defines=["MODE=2", "SCN=0", "NMAX=1"],
             cflags=rc.cflags(VERIF), unwind=5, solver="kissat", timeout=timeout, mem_gb=16,
             what="real video_source_thread, one frame, camera shape fully symbolic (all sample types, plane stride up to 2^37): committed header size = 8*ceil((96+sz)/8), equals the mapped size, shape = camera's, header 8-aligned",
             bounds=dict(frames=1, strides_planes="0..2^37", types="all 8", dims="any 32-bit"))

def framing2(timeout=900):
    h = framing(timeout)
    h.name = "source_framing_shape_change"
    h.defines = ["MODE=2", "SCN=0", "NMAX=2", "TWO_FRAMES=1"]
    h.unwind = 5
    h.what = "real video_source_thread, TWO frames, the camera's shape changes between them (frame 0: 1-byte image, frame 1: fully symbolic shape): each frame is sized and described by its own shape"
    return h

def iteration():
    return H("packet_iteration", "harness/runtime/iter.c", repo=[], env=[], defines=[], cflags=rc.cflags(VERIF), unwind=6, solver="cadical", timeout=900, mem_gb=12,
             what="real frame_iterator_next, vfslice_split_at_delay_ms and trash_append on an end-anchored packet of 1..3 frames with symbolic sizes: every header visited once, in order, stop exactly at the packet end, no read outside",
             bounds=dict(frames="1..3", image_bytes="0..16 each", delay="0 and >0 with the first too-new frame at any index"))

def aligned_steps(tier):
    R = 3
    hs = []
    for op in ("write_map", "write_unmap", "read_map", "read_unmap"):
        h = _c01.step(op, R, solver="cadical" if op == "read_map" else "kissat", extra=["ALIGNED=1"], tag="_aligned")
        h.what = "alignment is inductive in the channel: INV + (head, high, mapped, every reader position multiple of 8) is preserved when write sizes and consumed counts are multiples of 8 — " + h.what
        hs.append(h)
    return hs

def filter_frames():
    # frames EMITTED by the averaging filter are packets too: two of the C10 schedule instances
    # (1-pixel images, so the f32 image is 4 bytes: size field must be 96 + 4 rounded up to 104)
    _sp = importlib.util.spec_from_file_location("c10", os.path.join(VERIF, "props", "C10.py"))
    _c10 = importlib.util.module_from_spec(_sp); _c10.H = H; _c10.VERIF = VERIF; _c10.REPO = REPO
    _sp.loader.exec_module(_c10)
    hs = [_c10.sched(1, 2, (2,), 0, 1), _c10.sched(1, 2, (1, 1), 1, 8)]
    for h in hs:
        h.what = "frames emitted by the averaging filter (size field, type, shape of each f32 frame as the sink receives it): " + h.what
    return hs

def harnesses(tier, findings):
    hs = [framing(), framing2(), iteration()] + filter_frames() + aligned_steps(tier)
    return hs

META = dict(
    level="model_checking",
    bounds=dict(quick="framing: every ImageShape with plane stride <= 2^37 and every sample type; alignment induction: 3 reader slots, 64-bit state; iteration by the size field: frame_iterator, vfslice split and trash walk on packets of 1..3 frames with symbolic sizes; packet structure also checked by the mock storage / client in the unit and runtime harnesses (C04, C06)",
                thorough="same"),
    outside="clients that consume a byte count that is not a sum of whole frames; filter-emitted frames only for 1-pixel images (4-byte f32 image: the one residue modulo 8 that differs from the aligned case)",
    assumptions=["mock camera with symbolic shape; ring without readers for the framing harness", "as C01 for the induction steps"],
)
