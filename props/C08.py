# C08 — devices see a disciplined life cycle under any sequence of API calls
import importlib.util, os
_s = importlib.util.spec_from_file_location("rc", os.path.join(VERIF, "props", "_runtime_common.py")); rc = importlib.util.module_from_spec(_s); _s.loader.exec_module(rc)

def harnesses(tier, findings):
    masks = [0xF7, 0xAB, 0x00, 0x02, 0x13, 0x1B7, 0x123] if tier == "quick" else list(range(256)) + [0x100 | m for m in range(256) if (m & 0x21) == 0x21]
    ofm = [0x38, 0x04, 0x2e, 0x19] if tier == "quick" else [m for m in range(64) if m & 0x0c]
    hs = [rc.api(H, VERIF, 2, 1, 2, 3, 900, name="api_lifecycle_m%03x" % m, excludes=["P2MASK=%d" % m]) for m in masks] + [
          ] + [rc.api(H, VERIF, 4, 1, 1, 3, 900, name="api_open_fault_on_switch_m%02x" % m, excludes=["OFM=%d" % m]) for m in ofm] + [
          rc.inst(H, VERIF, 2, 2, 1, 0, 1), rc.inst(H, VERIF, 2, 2, 0, 1, 0),
          # a device call failing in the first of two acquisitions (the fault programs of C09): stop once per start still holds
          rc.api(H, VERIF, 3, 2, 2, 6, 900, name="api_fault_k1_at1_stop", excludes=["FIX_EARLY=1", "CL_MODE=0", "FIX_N=2", "FAULT_KIND=1", "FAULT_AT=1", "FIX_ABORT=0"]),
          rc.api(H, VERIF, 3, 2, 2, 6, 900, name="api_fault_k2_at0_abort", excludes=["FIX_EARLY=1", "CL_MODE=0", "FIX_N=2", "FAULT_KIND=2", "FAULT_AT=0", "FIX_ABORT=1"]),
          rc.start_flags(H, VERIF, 1), rc.start_flags(H, VERIF, 2),
          rc.source_unit(H, VERIF, 0, 2, 1, envmax=6)]  # worker keeps is_running until its last device call
    return hs

META = dict(
    level="model_checking",
    bounds=dict(quick="whole runtime, one or two streams, call template configure start [trigger] [start again] stop|abort [configure with swapped devices | configure without the second stream] [start stop] shutdown: 5 of the 256 sub-programs in the quick tier, ALL 256 in the thorough tier, each run by CBMC; device-open fault during a device switch: 4 (thorough: all 48) choice patterns; plus 2-acquisition runs of one stream",
                thorough="same"),
    outside="client programs that are not sub-sequences of the template; fine-grained worker schedules (workers run atomically between create and join); the real device manager and dlopen (C stub); HAL-level protocol for arbitrary driver answers is C11",
    assumptions=["coarse thread model env/plat_coarse.c", "recording mock driver with protocol monitor (mock_devices.h)", "ring capacity interposed at build level"],
)
