# C17 — simulated cameras are memory-safe and honour the shape they report
COMP = "acquire-core-libs/src/acquire-device-properties/device/props/components.c"
ENV = ["env/plat_seq.c", "env/logger_stub.c"]

def t1(nset, timeout=900, solver="cadical"):
    return H("simcam_set_get_N%d" % nset, "harness/simcam/tier1.c", repo=[COMP], env=ENV,
             defines=["MODE=1", "NSET=%d" % nset], cflags=["-mavx2"], unwind=9, solver=solver, timeout=timeout, mem_gb=16,
             what="%d successive simcam_set calls with fully symbolic shape/offset/exposure/type/trigger and every power-of-two binning: clamping, strides, get-after-set, buffer sizes >= extent of the full-resolution render" % nset,
             bounds=dict(sets=nset, shape="0..2^32-1 per axis", binning="0,1,2,4,...,128 and any non-power-of-two", types="all 8"))

def reconf(timeout=1500, solver="kissat"):
    h = t1(1, timeout, solver)
    h.name = "simcam_reconfigure_step_" + solver
    h.defines = ["MODE=3"]
    h.what = "re-configuration as an induction step: arbitrary earlier configuration (binning in {1,2,4,8}, clamped shape, type) whose buffers satisfy the size invariant, then one fully symbolic simcam_set: same obligations (buffers >= extent of the NEW full-resolution render)"
    return h

def t2(kernel, wmax, hmax, timeout=1500, solver="cadical", wmin=1):
    nm = {1: "im_fill_rand", 2: "bin2", 3: "bin_cascade", 4: "get_frame"}[kernel]
    return H("loops_%s_w%d-%d_h%d" % (nm, wmin, wmax, hmax), "harness/simcam/tier2.c", repo=[COMP], env=ENV,
             defines=["KERNEL=%d" % kernel, "WMAX=%d" % wmax, "HMAX=%d" % hmax, "WMIN=%d" % wmin], cflags=["-mavx2"],
             unwind=max(wmax * hmax // 32 + 6, hmax + 2, 12), unwindset={"im_fill_rand.0": wmax * hmax + 12, "main.0": max(wmax - wmin, hmax) + 3, "main.1": max(wmax - wmin, hmax) + 3, "main.2": max(wmax - wmin, hmax) + 3, "one_shape.0": 6}, solver=solver, timeout=timeout, mem_gb=28, est_gb=(18 if kernel in (2, 3) else ((8 if wmax <= 16 else 18) if kernel == 4 else 1)), nobody_ok=[r"__builtin_ia32_"],
             what="real %s on an end-anchored arena (buffer = last E bytes of a fixed object, E = extent assumed by tier 1): every load/store inside for all shapes up to %d x %d" % (nm, wmax, hmax),
             bounds=dict(width="1..%d" % wmax, height="1..%d" % hmax))

def harnesses(tier, findings):
    if tier == "plain":
        a = t2(2, 40, 6, 900); a.cflags = []; a.name += "_plain"; a.nobody_ok = []; a.unwind = 50
        return [a]
    if tier == "probe":
        return [t2(2, 64, 8, 1500, wmin=41), t2(2, 84, 8, 1500, wmin=65), t2(3, 52, 8, 1500, wmin=41), t2(3, 64, 8, 1500, wmin=53)]
    if tier == "quick":
        return [t1(1), reconf(), t2(1, 16, 4, 600), t2(4, 16, 4, 600), t2(2, 64, 6, 600), t2(3, 40, 8, 600)]
    return [t1(1), reconf(3000), t2(1, 32, 8, 3000), t2(4, 16, 4, 3000), t2(4, 24, 4, 3000, wmin=17)] + [t2(2, hi, 8, 3000, wmin=lo) for lo, hi in ((1, 40), (41, 64), (65, 84), (85, 100))] + \
           [t2(3, hi, 8, 3000, wmin=lo) for lo, hi in ((1, 28), (29, 40), (41, 52), (53, 64))]

META = dict(
    level="model_checking",
    bounds=dict(quick="tier 1: one set from the initial camera state and one re-configuration step from an arbitrary earlier configuration, full 32-bit shape/offset range, all binnings and types; tier 2: im_fill_rand for all shapes <= 16x4 and types (symbolic), AVX2 bin2 and the binning cascade (2,4,8) for every shape <= 64 x 6/8 (enumerated, see harness)",
                thorough="tier 2 boxes: im_fill_rand 32x8, get_frame widths 1..24 x heights 1..4 (two slices; 24x6 and 32x8 exhaust 28 GB), bin2 widths 1..100 x heights 1..8, cascade widths 1..64 x heights 1..8 (in width slices of about 10 GB each)"),
    outside="ALIGNMENT of the AVX2 vector accesses (CBMC has no alignment model: the 32-byte aligned moves on realloc memory repaired by 6395a31 were not, and would not be, found by this check); re-configuration while the streamer thread is running (buffers are reallocated under it); allocation failure",
    assumptions=["popcount_u8 (C++ std::popcount) replaced by a C bit-count model", "realloc stub records the requested size; lock model of env/plat_seq.c",
                 "pattern renderers (C++, imfill.pattern.cpp) are stubbed: their extent is not decided (their loops write width*height elements through the strides of the full-resolution shape)",
                 "AVX2 intrinsics have no body under CBMC (arbitrary lane values); bin2's accesses depend on (w,h) only"],
)
