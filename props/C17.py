# C17 — simulated cameras are memory-safe and honour the shape they report
COMP = "acquire-core-libs/src/acquire-device-properties/device/props/components.c"
ENV = ["env/plat_seq.c", "env/logger_stub.c"]

def t1(nset, timeout=900, solver="cadical"):
    return H("simcam_set_get_N%d" % nset, "harness/simcam/tier1.c", repo=[COMP], env=ENV,
             defines=["MODE=1", "NSET=%d" % nset], cflags=["-mavx2"], unwind=9, solver=solver, timeout=timeout, mem_gb=16,
             what="%d successive simcam_set calls with fully symbolic shape/offset/exposure/type/trigger and every power-of-two binning: clamping, strides, get-after-set, buffer sizes >= extent of the full-resolution render" % nset,
             bounds=dict(sets=nset, shape="0..2^32-1 per axis", binning="0,1,2,4,...,128 and any non-power-of-two", types="all 8"))

def reconf(timeout=1500, solver="kissat"):
    h = t1(1, timeout, solver)
    h.name = "simcam_reconfigure_step_" + solver
    h.defines = ["MODE=3"]
    h.what = "re-configuration as an induction step: arbitrary earlier configuration (binning in {1,2,4,8}, clamped shape, type) whose buffers satisfy the size invariant, then one fully symbolic simcam_set: same obligations (buffers >= extent of the NEW full-resolution render)"
    return h

def harnesses(tier, findings):
    if tier == "probe":
        return [reconf(solver="kissat", timeout=1200), reconf(solver="cadical", timeout=1200)]
    if tier == "quick":
        return [t1(1), reconf()]
    return [t1(1), reconf(3000)]

META = dict(
    level="model_checking",
    bounds=dict(quick="one set from the initial camera state, all kinds, full 32-bit shape/offset range, all binnings and types",
                thorough="two successive sets (re-configuration); real render/bin loops on a small shape box (tier 2)"),
    outside="re-configuration while the streamer thread is running (buffers are reallocated under it); allocation failure",
    assumptions=["popcount_u8 (C++ std::popcount) replaced by a C bit-count model", "realloc stub records the requested size; lock model of env/plat_seq.c",
                 "pattern renderers (C++) stubbed in tier 1 (not reached)"],
)
