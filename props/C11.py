# C11 — HAL wrappers enforce the device protocol; nothing touches a closed device
HAL = "acquire-core-libs/src/acquire-device-hal/device/hal/"
REPO_SRCS = [HAL + "camera.c", HAL + "storage.c", HAL + "driver.c"]
ENV = ["env/logger_stub.c", "env/devstr_stub.c"]

def hh(kind, L, timeout=900):
    return H("hal_%s_L%d" % ("storage" if kind == 1 else "camera", L), "harness/hal/hal_seq.c", repo=REPO_SRCS, env=ENV,
             defines=["KIND=%d" % kind, "L=%d" % L], unwind=L + 1, solver="cadical", timeout=timeout,
             what="open over a mock driver with symbolic return codes, symbolic sequence of %d HAL calls, close; device freed by the driver's close" % L,
             bounds=dict(calls=L, driver_codes="open/describe Ok|Err; camera calls Ok|Err; storage states 0..5"))

def harnesses(tier, findings):
    L = 8 if tier == "quick" else 14
    return [hh(1, L), hh(2, L)]

META = dict(
    level="model_checking",
    bounds=dict(quick="every sequence of 8 HAL calls after open, then close; every driver return code", thorough="every sequence of 14 HAL calls"),
    outside="NULL function pointers in the device struct (malformed driver); storage_validate; two handles on one driver; the device manager (C stub returning the mock driver)",
    assumptions=["device_manager_get_driver returns the mock driver", "logger and *_as_string have empty bodies", "malloc never fails"],
)
