import os, re, sys
DM_CPP = "acquire-core-libs/src/acquire-device-hal/device/hal/device.manager.cpp"
DM_INC = ["acquire-core-libs/src/acquire-core-platform/linux", "acquire-core-libs/src/acquire-core-logger", "acquire-core-libs/src/acquire-device-kit",
          "acquire-core-libs/src/acquire-device-properties", "acquire-core-libs/src/acquire-device-hal"]
# functions of the unit that are translated; everything else the module defines (the libstdc++
# regex engine: ~220 template instantiations) is modelled by the harness
WANT_RE = re.compile(r"^(device_manager_\w+|_ZL\d+device_manager_\w+|_ZN12_GLOBAL__N_115DeviceManagerV0\w+|_ZNK12_GLOBAL__N_115DeviceManagerV0\w+|_ZNSt6vectorIP6DriverSaIS1_EE\w+|_ZNSt6vectorIN12_GLOBAL__N_115DeviceManagerV023DeviceEnumerationResultESaIS2_EE\w+|_ZNK?St7__cxx1112basic_stringIcSt11char_traitsIcESaIcEE\w+|_ZStplIcSt11char_traitsIcESaIcEENSt7__cxx1112basic_stringI\w+)$")

def pre_dm(VERIF):
    def pre(h, d, runner):
        sys.path.insert(0, os.path.join(VERIF, "ir2c"))
        import gen
        repo = os.environ.get("VERIF_REPO", "/repo")
        incs = ["-I" + os.path.join(repo, i) for i in DM_INC]
        ll = os.path.join(d, "dm.ll"); c = os.path.join(d, "dm_gen.c")
        gen.sh(["clang++-14", "-std=gnu++20", "-O1", "-fno-vectorize", "-fno-slp-vectorize", "-fno-unroll-loops", "-DNDEBUG"] + incs +
               ["-S", "-emit-llvm", "-o", ll, os.path.join(repo, DM_CPP)])
        names = [mm.group(1).strip('"') for mm in (re.search(r'@("[^"]+"|[\w.$]+)\(', l) for l in open(ll) if l.startswith("define ")) if mm]
        want = [n for n in names if WANT_RE.match(n)]
        env = dict(os.environ); env["IR2C_EH"] = "1"; env["IR2C_TYPED_ALLOCA"] = "1"; env["IR2C_RPO"] = "1"
        gen.sh([sys.executable, os.path.join(VERIF, "ir2c", "ir2c.py"), ll, c] + want, env=env)
        txt = open(c).read()
        # layout facts the harness mirrors rely on
        for fact, why in (("*268)", "sizeof(DeviceEnumerationResult) == 268"), ("264ULL)", "sizeof(DeviceIdentifier) == 264")):
            if fact not in txt:
                raise RuntimeError("layout assumption of harness/hal/devman.c no longer visible in the generated code: " + why)
        # after the validation below: identifier copies become typed struct assignments for CBMC
        h.generated = ["dm_gen.c"]
        h.what_extra = "translated from the current device.manager.cpp: " + ", ".join(sorted(want))
        # differential validation of the translation against the g++ build
        n = gen.validate_dm(repo, c, d, incs)
        h.what_extra += "; translation validated on %d concrete scenarios (same answers as the g++ build)" % n
        txt2, k = re.subn(r"memmove\(([^;]*?), 264ULL\);", r"verif_copy_ident(\1);", txt)
        if k == 0:
            raise RuntimeError("no 264-byte identifier copy found in the generated code")
        open(c, "w").write(txt2.replace("#include <stdlib.h>", "#include <stdlib.h>\nvoid verif_copy_ident(char*, char*);", 1))
    return pre
