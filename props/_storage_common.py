# shared pieces for the storage-device checks (C14, C16)
PLAT = "acquire-core-libs/src/acquire-core-platform/linux/platform.c"
PROPS = "acquire-core-libs/src/acquire-device-properties/device/props/storage.c"
HALS = "acquire-core-libs/src/acquire-device-hal/device/hal/storage.c"
HALD = "acquire-core-libs/src/acquire-device-hal/device/hal/driver.c"
RAW = "acquire-driver-common/src/storage/raw.c"
TRASH = "acquire-driver-common/src/storage/trash.c"
ENV = ["env/fs_model.c", "env/alloc_small.c", "env/logger_stub.c", "env/devstr_stub.c", "lib/mem_loops.c"]
REPLAY_SYS = ["-Dopen=verif_sys_open", "-Dclose=verif_sys_close", "-Dpwrite=verif_sys_pwrite", "-Dflock=verif_sys_flock",
              "-Daccess=verif_sys_access", "-Dunlink=verif_sys_unlink", "-D__errno_location=verif_sys___errno_location",
              "-Dstrerror=verif_sys_strerror"]
def cflags(VERIF):
    return ["-D_GNU_SOURCE", "-Drealloc=verif_realloc", "-Dmalloc=verif_malloc", "-include", VERIF + "/lib/typed_mem.h"]
