# C07 — abort and stop always return and leave a reusable runtime (unit leaves; API-level leaf in the runtime harness)
import importlib.util, os
_s = importlib.util.spec_from_file_location("rc", os.path.join(VERIF, "props", "_runtime_common.py")); rc = importlib.util.module_from_spec(_s); _s.loader.exec_module(rc)

def harnesses(tier, findings):
    if tier == "quick":
        return [rc.source_unit(H, VERIF, 1, 2, 1, envmax=6), rc.sink_unit(H, VERIF, 2, 2, 1, envmax=6)]
    return [rc.source_unit(H, VERIF, 1, 3, 2, envmax=8, timeout=3000), rc.source_unit(H, VERIF, 1, 2, 1, envmax=8, timeout=3000, tag="b"),
            rc.sink_unit(H, VERIF, 2, 3, 2, envmax=8, timeout=3000)]

META = dict(
    level="model_checking",
    bounds=dict(quick="source unit under abort (is_stopping, then refusal, at arbitrary boundaries), N<=2, ring 1 frame; sink unit with a writer that is refused mid-run, N<=2",
                thorough="N<=3, ring 2 frames"),
    outside="the channel itself is replaced by its contract model in these units (its blocking/wake-up behaviour under abort is C03); camera blocked waiting for a trigger (C18); API-level sequencing of abort/stop is in the whole-runtime harness (coarse schedules)",
    assumptions=["env/chan_contract.c = guarantees established by C01-C03", "mock camera/storage", "boundary scheduling (B): environment steps before every atomic channel operation, at clock/sleep stubs and at device-mock entry"],
)
