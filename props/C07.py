# C07 — abort and stop always return and leave a reusable runtime
import importlib.util, os
_s = importlib.util.spec_from_file_location("rc", os.path.join(VERIF, "props", "_runtime_common.py")); rc = importlib.util.module_from_spec(_s); _s.loader.exec_module(rc)

def harnesses(tier, findings):
    excl = True
    hs = [rc.source_unit(H, VERIF, 1, 2, 1, envmax=6), rc.sink_unit(H, VERIF, 2, 2, 1, polls=2, envmax=5, delay0=True, tag="d0"),
          rc.start_flags(H, VERIF, 1), rc.start_flags(H, VERIF, 2), rc.start_flags(H, VERIF, 3),
          rc.inst(H, VERIF, 2, 2, 1, 1, 1, excl=excl), rc.inst(H, VERIF, 2, 2, 0, 1, 0, excl=excl), rc.inst(H, VERIF, 2, 2, 1, 1, 2, excl=excl)]
    if tier == "thorough":
        hs += [rc.source_unit(H, VERIF, 1, 3, 2, envmax=8, timeout=3000, tag="b"), rc.inst(H, VERIF, 3, 2, 1, 1, 1, excl=excl, timeout=3000),
               rc.inst(H, VERIF, 2, 2, 0, 1, 1, excl=excl), rc.inst(H, VERIF, 2, 2, 1, 1, 3, excl=excl)]
    return hs

META = dict(
    level="model_checking",
    bounds=dict(quick="source unit under abort (stop flag, then refusal, at arbitrary boundaries; N<=2, ring 1 frame); sink unit with refused writer (N<=2); start functions from arbitrary flags; whole runtime: 2 acquisitions x 2 frames ended by abort (source before/after the client, client idle / consuming / holding), order of abort's effects checked at the trigger",
                thorough="N<=3, 3 acquisitions, more client modes"),
    outside="the channel's own blocking behaviour under abort (C03); a camera blocked waiting for a trigger is represented by the ordering obligation on acquire_abort (stop flag and refusal before the trigger) plus C18; fine-grained worker schedules at API level",
    assumptions=["env/chan_contract.c = guarantees established by C01-C03", "mock camera/storage", "boundary scheduling (B) in the units; coarse schedules in the whole-runtime runs"],
)
