# C04 — every acquired frame reaches storage exactly once, in order, bit-exact (compositional, DESIGN §3)
import importlib.util, os
_s = importlib.util.spec_from_file_location("rc", os.path.join(VERIF, "props", "_runtime_common.py")); rc = importlib.util.module_from_spec(_s); _s.loader.exec_module(rc)
_spec = importlib.util.spec_from_file_location("c01", os.path.join(VERIF, "props", "C01.py"))
_c01 = importlib.util.module_from_spec(_spec); _c01.H = H; _c01.VERIF = VERIF; _c01.REPO = REPO
_spec.loader.exec_module(_c01)

def gch():
    hs = [h for h in _c01._harnesses("quick", []) if any(k in h.name for k in ("write_map", "write_unmap", "read_map_R", "read_unmap"))]
    for h in hs:
        h.what = "G-CH leaf (channel induction step, as C01/C02): " + h.what
    return hs

def harnesses(tier, findings):
    excl = True
    if tier == "quick":
        return [rc.source_unit(H, VERIF, 0, 2, 1, envmax=6), rc.source_unit(H, VERIF, 0, 3, 2, envmax=8, tag="b"),
                rc.sink_unit(H, VERIF, 0, 2, 1, polls=2, envmax=5, delay0=True, tag="d0"),
                rc.start_flags(H, VERIF, 1), rc.start_flags(H, VERIF, 2), rc.start_flags(H, VERIF, 3),
                rc.inst(H, VERIF, 2, 2, 1, 0, 1, excl=excl), rc.inst(H, VERIF, 2, 2, 0, 0, 1, excl=excl)] + gch()
    return [rc.source_unit(H, VERIF, 0, 3, 1, envmax=8, timeout=3000), rc.source_unit(H, VERIF, 0, 3, 2, envmax=8, timeout=3000, tag="b"),
            rc.sink_unit(H, VERIF, 0, 2, 1, polls=2, envmax=5, delay0=True, tag="d0", timeout=3000), rc.sink_unit(H, VERIF, 0, 2, 1, polls=2, envmax=5, tag="dsym", timeout=3500),
            rc.sink_unit(H, VERIF, 0, 2, 2, polls=2, envmax=5, tag="k2", timeout=3500),
            rc.start_flags(H, VERIF, 1), rc.start_flags(H, VERIF, 2), rc.start_flags(H, VERIF, 3),
            rc.inst(H, VERIF, 2, 2, 1, 0, 1, excl=excl), rc.inst(H, VERIF, 2, 2, 0, 0, 1, excl=excl), rc.inst(H, VERIF, 2, 3, 1, 0, 1, ring=4, excl=excl, timeout=3000),
            rc.api(H, VERIF, 2, 1, 2, 3, 3000, name="api_two_streams_mf7", excludes=["P2MASK=%d" % 0xF7]), rc.api(H, VERIF, 2, 1, 2, 3, 3000, name="api_two_streams_mb3", excludes=["P2MASK=%d" % 0xB3])] + gch()

META = dict(
    level="model_checking",
    bounds=dict(quick="G-SRC: N<=3 frames, ring 1-2 frames, <=8 environment steps; G-SNK: N<=2, ring 1 frame, <=2 polls, write delay 0; G-CH: channel induction steps (3 reader slots); G-API: start functions from arbitrary flags + whole-runtime coarse runs (2 acquisitions x 2 frames)",
                thorough="G-SNK also with symbolic write delay and ring 2; N<=3; two streams"),
    outside="the composition argument of DESIGN §3 (trusted); frame sizes other than the mock's (framing arithmetic for every shape is C05); N>3; more than 8 environment steps per unit run",
    assumptions=["units run on the channel contract model env/chan_contract.c (= G-CH, established by the induction steps listed here)", "mock camera/storage; C stub of the device manager", "boundary scheduling (B) in the units; coarse schedules in the whole-runtime runs"],
)
