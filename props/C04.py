# C04 — every acquired frame reaches storage exactly once, in order, bit-exact (compositional, DESIGN §3)
import importlib.util, os
_s = importlib.util.spec_from_file_location("rc", os.path.join(VERIF, "props", "_runtime_common.py")); rc = importlib.util.module_from_spec(_s); _s.loader.exec_module(rc)

def harnesses(tier, findings):
    if tier == "probe":
        return [rc.sink_unit(H, VERIF, 0, 2, 1, polls=2, envmax=5, timeout=900, delay0=True, tag="d0"), rc.sink_unit(H, VERIF, 0, 1, 1, polls=2, envmax=4, timeout=900, tag="n1"),
                rc.sink_unit(H, VERIF, 0, 2, 2, polls=2, envmax=5, timeout=900, tag="k2")]
    if tier == "quick":
        return [rc.source_unit(H, VERIF, 0, 2, 2), rc.sink_unit(H, VERIF, 0, 2, 2)]
    return [rc.source_unit(H, VERIF, 0, 3, 2, timeout=3000), rc.sink_unit(H, VERIF, 0, 3, 2, timeout=3000),
            rc.source_unit(H, VERIF, 0, 2, 1, timeout=3000), rc.sink_unit(H, VERIF, 0, 2, 3, timeout=3000)]

META = dict(level="model_checking", bounds=dict(quick="N<=2 frames, ring 2 frames", thorough="N<=3"), outside="", assumptions=[])
