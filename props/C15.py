# C15 — TIFF writers produce valid BigTIFF files that round-trip every frame (tiff device; IR route)
import importlib.util, os
_s = importlib.util.spec_from_file_location("tc", os.path.join(VERIF, "props", "_tiff_common.py")); tc = importlib.util.module_from_spec(_s); _s.loader.exec_module(tc)

def f(n, grouping, desc=12, timeout=1500, file_uri=0, meta=0):
    fsz = 16 + n * (8 + 320 + 8 + 8 + 8 + ((desc + 8) // 8) * 8 + 16) + 64
    h = tc.tiff_h(H, VERIF, "tiff_file_N%d_g%d_d%d_u%d" % (n, grouping, desc, file_uri), ["MODE=15", "NFRAMES=%d" % n, "GROUPING=%d" % grouping, "DESC=%d" % desc, "FILE_URI=%d" % file_uri],
                  unwind=max(18, n + 2), timeout=timeout, unwindset={"file_write.0": fsz + 1})
    h.what = "tiff.cpp (clang IR -> C, validated) through the HAL: set, start, %d frame(s) with symbolic width/height/type/ids/timestamps/pixels in %s, stop; independent reader over the file image" % (n, "one packet" if grouping == 2 else "one packet per frame")
    h.bounds = dict(frames=n, image_bytes=8, description_length=desc, uri="a | file://a")
    if n >= 2:
        h.mem_gb = 44; h.est_gb = 40  # 23 GB were not enough for two frames in separate packets
    h.unwindset["vsnprintf.0"] = 142; h.unwindset["vsnprintf.1"] = 142; h.unwindset["vsnprintf.2"] = 142
    h.unwindset["key_before.0"] = 22
    if os.environ.get("VERIF_C15_FS"):
        h.flags = list(h.flags) + ["--max-field-sensitivity-array-size", os.environ["VERIF_C15_FS"]]
    if meta:
        h.name += "_meta"; h.defines.append("TIFF_META=1")
        h.what += "; user metadata {\"a\":\"5%\"} set: carried verbatim by the first description only, every value attached to its JSON key, no other conversion in a description format"
        h.bounds["metadata"] = "one fixed JSON text with a per-cent sign"
    return h

def frestart(timeout=1500):
    h = f(1, 1, timeout=timeout)
    h.name = "tiff_restart_step"
    h.defines.append("DIRTY_START=1")
    h.what = "restart step: the device object is as an arbitrary earlier acquisition left it (write cursor, link position, frame count, string-section offset all arbitrary 64-bit values); start + one frame + stop must produce the same valid one-directory file as on a fresh device"
    h.bounds = dict(previous_state="arbitrary 64-bit values of last_offset, last_ifd_next_offset, frame_count, string-section offset", frames=1)
    return h

def fstep(timeout=1500):
    h = f(1, 1, timeout=timeout)
    h.name = "tiff_frame_step"
    h.defines.append("FRAME_STEP=1")
    h.what = "per-frame induction step: after start the end-of-data offset of the file is ARBITRARY (16..2^62, so files beyond 4 GiB); one more frame: directory at the next 8-byte boundary, strip/description/next link laid out after it without overlap, link of the new directory terminated at stop"
    h.bounds = dict(end_offset="16..2^62", frames=1)
    return h

def fc(n, grouping, desc=12, timeout=1500, meta=1, full=False):
    fsz = 16 + n * (8 + 320 + 8 + 8 + 8 + ((desc + 8) // 8) * 8 + 16) + 64
    h = tc.tiff_h(H, VERIF, "tiffjson_file_N%d_g%d_m%d" % (n, grouping, meta), ["MODE=15", "NFRAMES=%d" % n, "GROUPING=%d" % grouping, "DESC=%d" % desc, "FILE_URI=0", "SBS_META=%d" % meta],
                  unwind=max(18, n + 2), timeout=timeout, unwindset={"file_write.0": fsz + 1}, composite=True, full=full)
    if full:
        h.name += "_full"; h.defines += ["FOLDER=0", "MKDIR_HOW=0"]
    h.what = "tiff-json composite: side_by_side_tiff_init/append/stop/destroy (clang IR -> C) around the translated tiff writer; set/start modelled by hand after the source (guarded by a source-text check); %d frame(s); same streaming reader on data.tif; metadata.json written and closed" % n
    h.bounds = dict(frames=n, image_bytes=8, metadata="absent or {}")
    h.est_gb = 18
    return h

def harnesses(tier, findings):
    if tier == "composite":
        return [fc(1, 1, timeout=900, meta=1), fc(1, 1, timeout=900, meta=0)]
    if tier == "full":
        return [fc(1, 1, timeout=1500, meta=1, full=True)]
    if tier == "probe":
        a = f(1, 1); a.solver = "kissat"; a.name += "_kissat"; a.timeout = 900
        return [a, f(1, 1, timeout=900)]
    if tier == "quick":
        return [f(1, 1), f(1, 1, file_uri=1, meta=1), fstep(), frestart(), fc(1, 1, timeout=1500, meta=1)]
    return [f(1, 1), f(1, 1, file_uri=1, meta=1), f(2, 1, timeout=3000), f(2, 2, timeout=3000), f(1, 1, desc=30, timeout=3000), fstep(3000), frestart(3000), fc(1, 1, timeout=3000, meta=1), fc(1, 1, timeout=3000, meta=0)]

META = dict(
    level="model_checking",
    bounds=dict(quick="N=1 frame, 8 image bytes, all widths/heights/types/ids/timestamps/pixels, plain and file:// URI; tiff-json composite with metadata, N=1", thorough="N=2 in both groupings, description length 30; tiff-json with and without metadata"),
    outside="tiff-json: side_by_side_tiff_set/_start (std::filesystem) are modelled by hand after the source (the run refuses when that source text changes), so folder creation and path handling are not decided; Tiff::set's std::string handling beyond the two URIs; metadata other than the one fixed text; the TEXT vsnprintf renders (the model checks the format's key/conversion structure and the arguments, not libc's output); N>2; image bytes other than 8; restarts are covered by a step from an arbitrary earlier state of the writer object, not by running two acquisitions (file_create does not truncate: re-using the same file name is outside)",
    assumptions=["clang++-14 -O1 IR of tiff.cpp translated to C by ir2c/ir2c.py; every run checks the generated C against the g++ build on 6 scenarios (byte-identical files)",
                 "file layer modelled at the platform API; vsnprintf returns a fixed length, walks the format and records each argument with the JSON key that precedes its conversion", "allocation stubs return fixed-capacity objects", "HAL storage.c is the real code"],
)
