# C06 — monitoring client sees a gap-free, duplicate-free, fresh frame sequence
import importlib.util, os
_s = importlib.util.spec_from_file_location("rc", os.path.join(VERIF, "props", "_runtime_common.py")); rc = importlib.util.module_from_spec(_s); _s.loader.exec_module(rc)

def api(prog, acqs, nmax, ring, timeout=1200, solver="cadical", name=None, excludes=()):
    return H(name or "api_prog%d_A%d_N%d_K%d" % (prog, acqs, nmax, ring), "harness/runtime/api.c", repo=rc.RUNTIME_SRCS, env=rc.ENV_COARSE,
             defines=["PROG=%d" % prog, "ACQS=%d" % acqs, "NMAX=%d" % nmax, "RING_FRAMES=%d" % ring, "VERIF_TYPED_RING=104", "VERIF_RING_SLOTS=%d" % ring] + list(excludes), cflags=rc.cflags(VERIF),
             unwind=max(7, 2 * nmax + 3), unwindset={"verif_memset_b.0": ring * 104 + 16}, solver=solver, timeout=timeout, mem_gb=24,
             what="whole real runtime over mock devices, coarse worker schedules, program template %d, %d acquisition(s) of 1..%d frames, ring = %d frames" % (prog, acqs, nmax, ring),
             bounds=dict(acquisitions=acqs, frames_per_acquisition="1..%d" % nmax, ring_frames=ring, client="<=2 map/unmap rounds per acquisition, partial consumption, may hold across stop"))

def inst(acqs, n, early, ab, cl, ring=3, excl=True, timeout=900, prog=1):
    d = ["FIX_N=%d" % n, "FIX_EARLY=%d" % early, "CL_MODE=%d" % cl]
    if ab is not None:
        d.append("FIX_ABORT=%d" % ab)
    if excl:
        d.append("EXCL_C06_FIRST_MAP=1")
    h = api(prog, acqs, n, ring, timeout, name="api_A%d_N%d_e%d_%s_cl%d%s" % (acqs, n, early, {None: "sa", 0: "stop", 1: "abort"}[ab], cl, "" if excl else "_firstmap"), excludes=d)
    h.what += "; source %s the client, %s, client mode %d%s" % ("before" if early else "after", {None: "stop or abort (symbolic)", 0: "stop", 1: "abort"}[ab], cl,
                                                                "" if excl else " (client's first map ever happens after data exists: known-finding witness)")
    return h

def harnesses(tier, findings):
    excl = "C06-first-map-sees-earlier-data" in findings
    hs = []
    if tier == "probe3":
        return [inst(2, 2, 1, None, 1), inst(2, 2, 1, None, 2), inst(2, 2, 1, None, 3), inst(2, 2, 0, None, 1), inst(1, 1, 1, 0, 0, excl=False)]
    cls = (1, 2, 3)
    for cl in cls:
        hs.append(inst(2, 2, 1, None, cl, excl=excl))
    hs.append(inst(2, 2, 0, None, 1, excl=excl))
    if tier == "thorough":
        for cl in cls:
            hs.append(inst(3, 2, 1, None, cl, ring=3, excl=excl, timeout=3000))
            hs.append(inst(2, 3, 1, None, cl, ring=4, excl=excl, timeout=3000))
    if excl:
        w = inst(1, 1, 1, 0, 0, excl=False)
        w.expect = r"frames of a finished acquisition delivered after stop/abort returned"
        w.finding = "C06-first-map-sees-earlier-data"
        hs.append(w)
    return hs

META = dict(
    level="model_checking",
    bounds=dict(quick="2 acquisitions x 1..2 frames, ring 3 frames, stop or abort, source before or after the client",
                thorough="2 x 1..3 frames (ring 4) and 3 x 1..2 frames"),
    outside="fine-grained schedules of the workers against the client (worker bodies run atomically between create and join); rings larger than the bound; frame averaging; two streams",
    assumptions=["coarse thread model env/plat_coarse.c", "mock camera/storage (mock_devices.h), C stub of the device manager", "ring capacity interposed at build level (RING_FRAMES frames instead of 1 GiB)"],
)
