# C06 — monitoring client sees a gap-free, duplicate-free, fresh frame sequence
import importlib.util, os
_s = importlib.util.spec_from_file_location("rc", os.path.join(VERIF, "props", "_runtime_common.py")); rc = importlib.util.module_from_spec(_s); _s.loader.exec_module(rc)

def inst(*a, **k):
    return rc.inst(H, VERIF, *a, **k)

def harnesses(tier, findings):
    excl = "C06-first-map-sees-earlier-data" in findings
    hs = []
    if tier == "probe3":
        return [inst(2, 2, 1, None, 1), inst(2, 2, 1, None, 2), inst(2, 2, 1, None, 3), inst(2, 2, 0, None, 1), inst(1, 1, 1, 0, 0, excl=False)]
    cls = (0, 1, 2, 3)
    for cl in cls:
        hs.append(inst(2, 2, 1, 0, cl, excl=excl))
    hs.append(inst(2, 2, 1, 1, 1, excl=excl))
    hs.append(inst(2, 2, 0, 0, 1, excl=excl))
    hs.append(inst(2, 2, 0, 1, 0, excl=excl))
    # the acquisition finishes on its own, the client polls the state, then stops / aborts
    hs.append(inst(2, 2, 1, 0, 0, excl=excl, poll=True))
    hs.append(inst(2, 2, 1, 1, 3, excl=excl, poll=True))
    # the last region before stop is consumed only in part / held and never released by the client
    hs.append(inst(2, 2, 1, 0, 4, excl=excl))
    hs.append(inst(2, 2, 1, 1, 4, excl=excl, poll=True))
    hs.append(inst(2, 2, 1, 0, 5, excl=excl))
    hs.append(inst(2, 2, 1, 1, 5, excl=excl))
    if tier == "thorough":
        # every combination of source-before/after-client, stop/abort, client mode, poll-before-stop
        have = set(h.name for h in hs)
        for early in (0, 1):
            for ab in (0, 1):
                for cl in (0, 1, 2, 3, 4, 5):
                    for poll in (False, True):
                        h = inst(2, 2, early, ab, cl, excl=excl, poll=poll, timeout=3000)
                        if h.name not in have:
                            have.add(h.name); hs.append(h)
        for cl in (0, 1, 2):
            hs.append(inst(3, 2, 1, 0, cl, ring=3, excl=excl, timeout=3000))
        for cl in (0, 1):
            hs.append(inst(2, 3, 1, 0, cl, ring=4, excl=excl, timeout=3000))
        hs.append(inst(2, 2, 0, 1, 1, excl=excl, timeout=3000))
    # the monitor's view rests on the channel's read path: its induction steps are leaves here too
    import importlib.util, os
    _spec = importlib.util.spec_from_file_location("c01", os.path.join(VERIF, "props", "C01.py"))
    _c01 = importlib.util.module_from_spec(_spec); _c01.H = H; _c01.VERIF = VERIF; _c01.REPO = REPO
    _spec.loader.exec_module(_c01)
    for hh in _c01._harnesses("quick", []):
        if any(k in hh.name for k in ("step_read_map_R", "step_read_unmap", "step_read_map_join")):
            hh.what = "G-CH leaf (channel read path, as C01): " + hh.what
            hs.append(hh)
    if excl:
        w = inst(1, 1, 1, 0, 0, excl=False)
        w.expect = r"frames of a finished acquisition delivered after stop/abort returned"
        w.finding = "C06-first-map-sees-earlier-data"
        hs.append(w)
    return hs

META = dict(
    level="model_checking",
    bounds=dict(quick="2 acquisitions x 1..2 frames, ring 3 frames, stop or abort, source before or after the client",
                thorough="2 x 1..3 frames (ring 4) and 3 x 1..2 frames"),
    outside="fine-grained schedules of the workers against the client (worker bodies run atomically between create and join); rings larger than the bound; frame averaging; two streams",
    assumptions=["coarse thread model env/plat_coarse.c", "mock camera/storage (mock_devices.h), C stub of the device manager", "ring capacity interposed at build level (RING_FRAMES frames instead of 1 GiB)"],
)
