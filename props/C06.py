# C06 — monitoring client sees a gap-free, duplicate-free, fresh frame sequence
import importlib.util, os
_s = importlib.util.spec_from_file_location("rc", os.path.join(VERIF, "props", "_runtime_common.py")); rc = importlib.util.module_from_spec(_s); _s.loader.exec_module(rc)

def api(prog, acqs, nmax, ring, timeout=1200, solver="cadical", name=None, excludes=()):
    return H(name or "api_prog%d_A%d_N%d_K%d" % (prog, acqs, nmax, ring), "harness/runtime/api.c", repo=rc.RUNTIME_SRCS, env=rc.ENV_COARSE,
             defines=["PROG=%d" % prog, "ACQS=%d" % acqs, "NMAX=%d" % nmax, "RING_FRAMES=%d" % ring] + list(excludes), cflags=rc.cflags(VERIF),
             unwind=max(7, 2 * nmax + 3), unwindset={"verif_memset_b.0": ring * 104 + 16}, solver=solver, timeout=timeout, mem_gb=24,
             what="whole real runtime over mock devices, coarse worker schedules, program template %d, %d acquisition(s) of 1..%d frames, ring = %d frames" % (prog, acqs, nmax, ring),
             bounds=dict(acquisitions=acqs, frames_per_acquisition="1..%d" % nmax, ring_frames=ring, client="<=2 map/unmap rounds per acquisition, partial consumption, may hold across stop"))

def harnesses(tier, findings):
    if tier == "probe":
        return [api(1, 1, 1, 3, 900, name="p_all_fixed", excludes=["FIX_N=1", "FIX_EARLY=1", "FIX_ABORT=0", "CL_ROUNDS=0"]),
                api(1, 1, 1, 3, 900, name="p_fixed_cl1", excludes=["FIX_N=1", "FIX_EARLY=1", "FIX_ABORT=0", "CL_ROUNDS=1"]),
                api(1, 1, 1, 3, 900, name="p_sym_abort", excludes=["FIX_N=1", "FIX_EARLY=1", "CL_ROUNDS=0"]),
                api(1, 1, 2, 3, 900, name="p_sym_N", excludes=["FIX_EARLY=1", "FIX_ABORT=0", "CL_ROUNDS=0"])]
    if tier == "probe2":
        return [api(1, 2, 2, 3, 900, name="q_full", excludes=["EXCL_C06_FIRST_MAP=1"]),
                api(1, 2, 2, 3, 900, name="q_fixN", excludes=["EXCL_C06_FIRST_MAP=1", "FIX_N=2"]),
                api(1, 2, 1, 3, 900, name="q_fixN1_cl1", excludes=["EXCL_C06_FIRST_MAP=1", "FIX_N=1", "CL_ROUNDS=1"]),
                api(1, 1, 2, 3, 900, name="q_A1", excludes=["EXCL_C06_FIRST_MAP=1"])]
    if tier == "quick":
        return [api(1, 2, 2, 3)]
    return [api(1, 2, 2, 3), api(1, 2, 3, 4, 3000), api(1, 3, 2, 3, 3000)]

META = dict(
    level="model_checking",
    bounds=dict(quick="2 acquisitions x 1..2 frames, ring 3 frames, stop or abort, source before or after the client",
                thorough="2 x 1..3 frames (ring 4) and 3 x 1..2 frames"),
    outside="fine-grained schedules of the workers against the client (worker bodies run atomically between create and join); rings larger than the bound; frame averaging; two streams",
    assumptions=["coarse thread model env/plat_coarse.c", "mock camera/storage (mock_devices.h), C stub of the device manager", "ring capacity interposed at build level (RING_FRAMES frames instead of 1 GiB)"],
)
