# C01 — channel delivers every committed byte exactly once, in order; empty <=> drained
ENV = ["env/plat_seq.c", "env/logger_stub.c"]
OPS = dict(new=7, write_map=1, write_unmap=2, abort=3, accept=4, read_map=5, read_unmap=6, read_map_join=8)

def step(op, R, solver="kissat", timeout=900, tiers=("quick", "thorough"), extra=(), tag=""):
    return H("step_%s_R%d%s" % (op, R, tag), "harness/channel/step.c", env=ENV,
             defines=["OP=%d" % OPS[op], "R=%d" % R] + list(extra), unwind=R + 2, unwindset={"same_shared.0": 9}, solver=solver,
             timeout=timeout, tiers=tiers, ignore=[r"pointer_arithmetic.*pointer NULL in out \+"],
             what="induction step: arbitrary 64-bit INV pre-state, one real channel_%s, INV + unread-list refinement after; shared state changes only under the channel lock" % op,
             bounds=dict(readers=R, capacity="1..2^40", lap_counter="<2^62", state="all fields symbolic 64-bit"))

def hist(K, capmax, R=2, timeout=3000, solver="cadical"):
    return H("hist_K%d_cap%d_R%d" % (K, capmax, R), "harness/channel/hist.c", env=ENV,
             defines=["K=%d" % K, "CAPMAX=%d" % capmax, "R=%d" % R, "VERIF_FIXED_ALLOC=%d" % capmax], unwind=max(capmax, K, R) + 2, solver=solver,
             timeout=timeout, mem_gb=28, est_gb=12, ignore=[r"pointer_arithmetic.*pointer NULL in out \+"],
             what="bounded history from channel_new: %d symbolic operations (write_map/commit/abort/map/unmap), capacity 4..%d, %d readers joining at any time, real data buffer stamped with sequence numbers: byte-exact in-order delivery, empty <=> drained, writer regions never hold unconsumed bytes, INV holds in every reached state" % (K, capmax, R),
             bounds=dict(operations=K, capacity="4..%d" % capmax, readers=R))

def harnesses(tier, findings):
    hs = _harnesses(tier, findings)
    if tier == "thorough":
        hs += [hist(6, 8), hist(8, 6, timeout=3500)]
    if tier == "probe":
        return [hist(6, 8, timeout=1500), hist(7, 6, timeout=1500)]
    return hs

def _harnesses(tier, findings):
    R = 3 if tier == "quick" else 8
    # read_map: NULL + 0 is reported by --pointer-overflow-check on the empty-slice path (ignored class);
    # an ignored failure needs an incremental back end to decide the remaining obligations
    hs = [step(op, R, solver="cadical" if op == "read_map" else "kissat") for op in OPS]
    if tier == "thorough":
        for h in hs:
            h.timeout = 3000
    return hs

META = dict(
    level=dict(quick="proof", thorough="proof"),
    bounds=dict(quick="R=3 reader slots; capacity 1..2^40; lap counter < 2^62; every other field unconstrained 64-bit",
                thorough="R=8 reader slots; same ranges; plus bounded histories from channel_new (see harness list)"),
    outside="more than 8 readers; channel_release during use; a writer that unmaps without map or two concurrent writers; read_map on an already Mapped reader (protocol error path)",
    assumptions=[
        "mutual exclusion of struct lock works (pthread mutex): each public operation is atomic w.r.t. the others except channel_accept_writes' flag store",
        "a sleeping writer wakes in an arbitrary state satisfying INV (induction hypothesis); one sleep is encoded, a second one adds no new states",
        "memory_alloc = malloc that does not fail; logger has an empty body",
        "lap counter < 2^62 (non-inductive assume; 2^62 laps are unreachable)",
    ],
)
