# C09 — a failing camera or storage winds the acquisition down cleanly
import importlib.util, os
_s = importlib.util.spec_from_file_location("rc", os.path.join(VERIF, "props", "_runtime_common.py")); rc = importlib.util.module_from_spec(_s); _s.loader.exec_module(rc)

def harnesses(tier, findings):
    hs = []
    if tier == "quick":
        hs = [rc.source_unit(H, VERIF, 2, 2, 1, envmax=6), rc.sink_unit(H, VERIF, 1, 2, 1, envmax=6)]
    else:
        hs = [rc.source_unit(H, VERIF, 2, 3, 2, envmax=8, timeout=3000), rc.sink_unit(H, VERIF, 1, 3, 2, envmax=8, timeout=3000)]
    # sink died while the source may be blocked on a full ring
    sd = rc.source_unit(H, VERIF, 3, 2, 1, envmax=6)
    if "C09-source-blocked-when-sink-dies" in findings:
        sd.expect = r"sleeps forever in channel_write_map"
        sd.finding = "C09-source-blocked-when-sink-dies"
        sd.also_allowed = []
    hs.append(sd)
    return hs

META = dict(
    level="model_checking",
    bounds=dict(quick="camera fault at every frame index < N<=2; storage fault at every append index <= 2; sink death at any boundary with the ring 1 frame deep",
                thorough="N<=3, ring 2 frames"),
    outside="as C07", assumptions=["as C07"],
)
