# C09 — a failing camera or storage winds the acquisition down cleanly
import importlib.util, os
_s = importlib.util.spec_from_file_location("rc", os.path.join(VERIF, "props", "_runtime_common.py")); rc = importlib.util.module_from_spec(_s); _s.loader.exec_module(rc)

def harnesses(tier, findings):
    hs = [rc.source_unit(H, VERIF, 2, 2, 1, envmax=6), rc.sink_unit(H, VERIF, 1, 2, 1, polls=2, envmax=5, delay0=True, tag="d0"),
          rc.start_flags(H, VERIF, 1), rc.start_flags(H, VERIF, 2),
          ] + [rc.api(H, VERIF, 3, 2, 2, 6, 900, name="api_fault_k%d_at%d_%s" % (k, at, "abort" if ab else "stop"),
                     excludes=["FIX_EARLY=1", "CL_MODE=0", "FIX_N=2", "FAULT_KIND=%d" % k, "FAULT_AT=%d" % at, "FIX_ABORT=%d" % ab])
               for (k, at, ab) in ((1, 0, 0), (1, 1, 0), (2, 0, 0), (1, 1, 1))] + [
          # storage fault in the SECOND of three acquisitions with a 3-frame ring: the failed sink's backlog straddles the wrap point
          rc.api(H, VERIF, 3, 3, 2, 3, 900, name="api_fault_k2_acq1_wrap", excludes=["FIX_EARLY=1", "CL_MODE=0", "FIX_N=2", "FAULT_KIND=2", "FAULT_AT=0", "FIX_ABORT=0", "FAULT_ACQ=1"])]
    if tier == "thorough":
        hs += [rc.source_unit(H, VERIF, 2, 3, 2, envmax=8, timeout=3000, tag="b"), rc.sink_unit(H, VERIF, 1, 2, 2, polls=2, envmax=5, tag="k2", timeout=3500)]
    # averaging filter between source and sink: the sink dies (refuses writes) at an arbitrary boundary
    _sp = importlib.util.spec_from_file_location("c10", os.path.join(VERIF, "props", "C10.py"))
    _c10 = importlib.util.module_from_spec(_sp); _c10.H = H; _c10.VERIF = VERIF; _c10.REPO = REPO
    _sp.loader.exec_module(_c10)
    for arr, ss, ch, die in (((2,), 0, 1, 0), ((1, 1), 1, 8, 1), ((3,), 0, 8, 2), ((2, 1), 1, 1, 3)) + ((((1, 2), 0, 8, 0), ((4,), 0, 1, 2), ((2, 2), 1, 8, 3), ((3,), 0, 1, 1), ((2,), 1, 8, 2), ((1, 1), 0, 1, 3)) if tier == "thorough" else ()):
        fh = _c10.sched(4, 2, arr, ss, ch)
        fh.defines.append("DIE_AT=%d" % die)
        fh.name = fh.name.replace("filter_flush", "filter_sinkdied") + "_die%d" % die
        fh.what = "real video_filter_thread (k=2) while the sink dies at a scheduling boundary fixed per instance (refuses writes on the output ring, consumes nothing more): the filter keeps draining its input until the source's stop request and leaves nothing queued; " + fh.what.split(";", 1)[-1]
        hs.append(fh)
    # sink died while the source may be blocked on a full ring
    sd = rc.source_unit(H, VERIF, 3, 2, 1, envmax=6)
    if "C09-source-blocked-when-sink-dies" in findings:
        sd.expect = r"sleeps forever in channel_write_map"
        sd.finding = "C09-source-blocked-when-sink-dies"
    hs.append(sd)
    return hs

META = dict(
    level="model_checking",
    bounds=dict(quick="camera fault at every frame index < N<=2; storage fault at every append index; sink death at any boundary with the ring 1 frame deep; with the averaging filter (k=2) between source and sink: sink death at the 0th..3rd scheduling boundary for 4 arrival patterns of 2-3 frames; whole runtime: fault in acquisition 1 (camera or storage, symbolic index), stop or abort, then a fault-free acquisition",
                thorough="N<=3, ring 2 frames"),
    outside="as C07", assumptions=["as C07"],
)
