RT = "acquire-video-runtime/src/runtime/"
HAL = "acquire-core-libs/src/acquire-device-hal/device/hal/"
RUNTIME_SRCS = [RT + "source.c", RT + "sink.c", RT + "filter.c", RT + "channel.c", RT + "vfslice.c", RT + "throttler.c", RT + "frame_iterator.c",
                HAL + "camera.c", HAL + "storage.c", HAL + "driver.c",
                "acquire-core-libs/src/acquire-device-properties/device/props/components.c"]
ENV_COARSE = ["env/plat_seq.c", "env/plat_coarse.c", "env/logger_stub.c", "env/devstr_stub.c", "lib/mem_loops.c"]
def cflags(VERIF):
    return ["-include", VERIF + "/lib/typed_mem.h"]
COMP = "acquire-core-libs/src/acquire-device-properties/device/props/components.c"
ENV_UNIT = ["env/plat_seq.c", "env/logger_stub.c", "env/devstr_stub.c", "lib/mem_loops.c"]
def source_unit(H, VERIF, scn, nmax, ring, envmax=8, timeout=1500, solver="cadical", tag=""):
    names = {0: "plain", 1: "abort", 2: "camfault", 3: "sinkdied"}
    return H("source_%s_N%d_K%d%s" % (names[scn], nmax, ring, tag), "harness/runtime/source_unit.c",
             repo=[RT + "channel.c", HAL + "camera.c", HAL + "driver.c", COMP], env=ENV_UNIT,
             defines=["MODE=1", "SCN=%d" % scn, "NMAX=%d" % nmax, "RING_FRAMES=%d" % ring, "ENV_MAX=%d" % envmax],
             cflags=cflags(VERIF), unwind=max(nmax + 3, 5), unwindset={"verif_memset_b.0": ring * 104 + 16, "verif_on_wait.0": envmax + 1},
             solver=solver, timeout=timeout, mem_gb=24,
             what="real video_source_thread + channel + HAL camera vs. environment readers (scenario: %s), boundary scheduling" % names[scn],
             bounds=dict(frames="1..%d" % nmax, ring_frames=ring, env_steps=envmax, readers="checker + optional lazy reader"))
def sink_unit(H, VERIF, scn, nmax, ring, polls=3, envmax=10, timeout=1500, solver="cadical", tag=""):
    names = {0: "plain", 1: "stofault", 2: "abort"}
    return H("sink_%s_N%d_K%d%s" % (names[scn], nmax, ring, tag), "harness/runtime/sink_unit.c",
             repo=[RT + "channel.c", RT + "vfslice.c", RT + "throttler.c", HAL + "storage.c", HAL + "driver.c", COMP], env=ENV_UNIT,
             defines=["SCN=%d" % scn, "NMAX=%d" % nmax, "RING_FRAMES=%d" % ring, "POLL_MAX=%d" % polls, "ENV_MAX=%d" % envmax],
             cflags=cflags(VERIF), unwind=max(nmax + 4, polls + 2, 6), unwindset={"verif_memset_b.0": ring * 104 + 16},
             solver=solver, timeout=timeout, mem_gb=24,
             what="real video_sink_thread + vfslice + channel + HAL storage vs. an environment writer committing frames at arbitrary boundaries (scenario: %s)" % names[scn],
             bounds=dict(frames="1..%d" % nmax, ring_frames=ring, polls=polls, env_steps=envmax, write_delay="0 or >0 with arbitrary clock"))
