RT = "acquire-video-runtime/src/runtime/"
HAL = "acquire-core-libs/src/acquire-device-hal/device/hal/"
RUNTIME_SRCS = [RT + "source.c", RT + "sink.c", RT + "filter.c", RT + "channel.c", RT + "vfslice.c", RT + "throttler.c", RT + "frame_iterator.c",
                HAL + "camera.c", HAL + "storage.c", HAL + "driver.c",
                "acquire-core-libs/src/acquire-device-properties/device/props/components.c"]
ENV_COARSE = ["env/plat_seq.c", "env/plat_coarse.c", "env/logger_stub.c", "env/devstr_stub.c", "lib/mem_loops.c"]
def cflags(VERIF):
    return ["-include", VERIF + "/lib/typed_mem.h"]
COMP = "acquire-core-libs/src/acquire-device-properties/device/props/components.c"
ENV_UNIT = ["env/plat_seq.c", "env/logger_stub.c", "env/devstr_stub.c", "lib/mem_loops.c"]
def source_unit(H, VERIF, scn, nmax, ring, envmax=8, timeout=1500, solver="cadical", tag=""):
    names = {0: "plain", 1: "abort", 2: "camfault", 3: "sinkdied"}
    return H("source_%s_N%d_K%d%s" % (names[scn], nmax, ring, tag), "harness/runtime/source_unit.c",
             repo=[HAL + "camera.c", HAL + "driver.c", COMP], env=ENV_UNIT + ["env/chan_contract.c"],
             defines=["MODE=1", "SCN=%d" % scn, "NMAX=%d" % nmax, "RING_FRAMES=%d" % ring, "ENV_MAX=%d" % envmax, "TAPE_BYTES=%d" % ((nmax + 1) * 104), "WRITE_UNIT=104"],
             cflags=cflags(VERIF), unwind=nmax + 3, unwindset={"channel_write_map.0": 4, "min_consumed.0": 9, "tape_at.0": 12},
             solver=solver, timeout=timeout, mem_gb=24,
             what="real video_source_thread + channel + HAL camera vs. environment readers (scenario: %s), boundary scheduling" % names[scn],
             bounds=dict(frames="1..%d" % nmax, ring_frames=ring, env_steps=envmax, readers="checker + optional lazy reader"))
def sink_unit(H, VERIF, scn, nmax, ring, polls=3, envmax=10, timeout=1500, solver="cadical", tag="", delay0=False):
    names = {0: "plain", 1: "stofault", 2: "abort"}
    return H("sink_%s_N%d_K%d%s" % (names[scn], nmax, ring, tag), "harness/runtime/sink_unit.c",
             repo=[RT + "vfslice.c", RT + "throttler.c", HAL + "storage.c", HAL + "driver.c", COMP], env=ENV_UNIT + ["env/chan_contract.c"],
             defines=["SCN=%d" % scn, "NMAX=%d" % nmax, "RING_FRAMES=%d" % ring, "POLL_MAX=%d" % polls, "ENV_MAX=%d" % envmax, "TAPE_BYTES=%d" % ((nmax + 1) * 104), "WRITE_UNIT=104"] + (["FIX_DELAY0=1"] if delay0 else []),
             cflags=cflags(VERIF), unwind=nmax + 3, unwindset={"min_consumed.0": 9, "tape_at.0": 12, "video_sink_thread.0": nmax + 3, "video_sink_thread.1": nmax + 3, "video_sink_thread.2": polls + 2, "video_sink_thread.3": nmax + 3, "video_sink_thread.4": nmax + 3, "video_sink_thread.5": nmax + 3},
             solver=solver, timeout=timeout, mem_gb=28, drop_flags=["--pointer-overflow-check"], ignore=[r"pointer relation:"],
             what="real video_sink_thread + vfslice + channel + HAL storage vs. an environment writer committing frames at arbitrary boundaries (scenario: %s)" % names[scn],
             bounds=dict(frames="1..%d" % nmax, ring_frames=ring, polls=polls, env_steps=envmax, write_delay="0 or >0 with arbitrary clock"))

def start_flags(H, VERIF, which):
    nm = {1: "sink", 2: "source", 3: "filter"}[which]
    # (vfslice / throttler / frame_iterator are only reached by the thread bodies, which do not run here, but the native replay has to link)
    repo = {1: [HAL + "storage.c", HAL + "driver.c", COMP, RT + "vfslice.c", RT + "throttler.c"], 2: [HAL + "camera.c", HAL + "driver.c", COMP], 3: [RT + "frame_iterator.c", RT + "throttler.c", COMP]}[which]
    return H("start_flags_%s" % nm, "harness/runtime/start_flags.c", repo=repo, env=ENV_UNIT + ["env/chan_contract.c"],
             defines=["WHICH=%d" % which, "TAPE_BYTES=208", "WRITE_UNIT=104"], cflags=cflags(VERIF), unwind=9, unwindset={"tape_at.0": 12},
             solver="cadical", timeout=600, mem_gb=12,
             what="video_%s_start from ARBITRARY is_stopping/is_running left by an earlier acquisition: after a successful start is_stopping == 0, is_running == 1, device started" % nm,
             bounds=dict(flags="any 8-bit value"))

def api(H, VERIF, prog, acqs, nmax, ring, timeout=1200, solver="cadical", name=None, excludes=()):
    return H(name or "api_prog%d_A%d_N%d_K%d" % (prog, acqs, nmax, ring), "harness/runtime/api.c", repo=RUNTIME_SRCS, env=ENV_COARSE,
             defines=["PROG=%d" % prog, "ACQS=%d" % acqs, "NMAX=%d" % nmax, "RING_FRAMES=%d" % ring, "VERIF_TYPED_RING=104", "VERIF_RING_SLOTS=%d" % ring] + list(excludes), cflags=cflags(VERIF),
             unwind=max(7, 2 * nmax + 3), unwindset={"verif_memset_b.0": ring * 104 + 16}, solver=solver, timeout=timeout, mem_gb=24,
             what="whole real runtime over mock devices, coarse worker schedules, program template %d, %d acquisition(s) of 1..%d frames, ring = %d frames" % (prog, acqs, nmax, ring),
             bounds=dict(acquisitions=acqs, frames_per_acquisition="1..%d" % nmax, ring_frames=ring, client="<=2 map/unmap rounds per acquisition, partial consumption, may hold across stop"))

def inst(H, VERIF, acqs, n, early, ab, cl, ring=3, excl=True, timeout=900, prog=1, poll=False):
    d = ["FIX_N=%d" % n, "FIX_EARLY=%d" % early, "CL_MODE=%d" % cl]
    if ab is not None:
        d.append("FIX_ABORT=%d" % ab)
    if excl:
        d.append("EXCL_C06_FIRST_MAP=1")
    if poll:
        d.append("POLL_DONE=1")
    h = api(H, VERIF, prog, acqs, n, ring, timeout, name="api_A%d_N%d_e%d_%s_cl%d%s" % (acqs, n, early, {None: "sa", 0: "stop", 1: "abort"}[ab], cl, ("" if excl else "_firstmap") + ("_poll" if poll else "")), excludes=d)
    if poll:
        h.what += "; the acquisition finishes on its own and the client polls acquire_get_state before stop/abort"
    h.what += "; source %s the client, %s, client mode %d%s" % ("before" if early else "after", {None: "stop or abort (symbolic)", 0: "stop", 1: "abort"}[ab], cl,
                                                                "" if excl else " (client's first map ever happens after data exists: known-finding witness)")
    return h

