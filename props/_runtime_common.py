RT = "acquire-video-runtime/src/runtime/"
HAL = "acquire-core-libs/src/acquire-device-hal/device/hal/"
RUNTIME_SRCS = [RT + "source.c", RT + "sink.c", RT + "filter.c", RT + "channel.c", RT + "vfslice.c", RT + "throttler.c", RT + "frame_iterator.c",
                HAL + "camera.c", HAL + "storage.c", HAL + "driver.c",
                "acquire-core-libs/src/acquire-device-properties/device/props/components.c"]
ENV_COARSE = ["env/plat_seq.c", "env/plat_coarse.c", "env/logger_stub.c", "env/devstr_stub.c", "lib/mem_loops.c"]
def cflags(VERIF):
    return ["-include", VERIF + "/lib/typed_mem.h"]
