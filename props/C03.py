# C03 — a blocked writer always resumes; readers drain in bounded calls
import importlib.util, os
_spec = importlib.util.spec_from_file_location("c01", os.path.join(VERIF, "props", "C01.py"))
_c01 = importlib.util.module_from_spec(_spec); _c01.H = H; _c01.VERIF = VERIF; _c01.REPO = REPO
_spec.loader.exec_module(_c01)
ENV = ["env/plat_seq.c", "env/logger_stub.c"]

def blk(scn, name, R, envmax, isr=True, timeout=1500, solver="kissat", unwind=None):
    return H("%s_R%d_E%d" % (name, R, envmax), "harness/channel/block.c", env=ENV,
             defines=["SCN=%d" % scn, "R=%d" % R, "ENV_MAX=%d" % envmax], unwind=unwind or max(R + 2, envmax + 1, 4),
             isr="env_step" if isr else None, solver=solver, timeout=timeout, mem_gb=24,
             ignore=[r"pointer_arithmetic.*pointer NULL in out \+"],
             # NULL + 0 in channel_read_map's empty-slice return is flagged by --pointer-overflow-check; with the
             # one-shot kissat back end an ignored failure would leave the other obligations undecided
             drop_flags=["--pointer-overflow-check"] if isr else [],
             what={1: "refusal: real write_map from an arbitrary INV state vs. real accept_writes(0) (+ reader steps) preempting at every instruction (ISR); writer must return",
                   2: "release: real write_map vs. readers that keep reading until drained (real read_map/read_unmap), preemption at every instruction; writer must obtain its region",
                   3: "drain: from an arbitrary INV state a reader doing map/unmap(all) reaches 'drained' within 3 rounds and is then at the writer's cursor"}[scn],
             bounds=dict(readers=R, env_steps=envmax, writer_sleeps="<=%d" % ((unwind or max(R + 2, envmax + 1, 4)) - 1), state="symbolic 64-bit INV state"))

def harnesses(tier, findings):
    audit = [h for h in _c01._harnesses("quick", findings) if any(k in h.name for k in ("step_accept", "step_read_unmap", "step_read_map_R"))]
    for h in audit:
        h.what = "notification audit (same induction-step harness as C01): " + h.what
    if tier == "probe":
        return [blk(1, "refusal", 2, 3, timeout=2400), blk(2, "release", 2, 4, timeout=2400), blk(1, "refusal", 1, 5, timeout=2400), blk(2, "release", 1, 6, timeout=2400)]
    if tier == "quick":
        return [blk(1, "refusal", 1, 3), blk(2, "release", 1, 4), blk(3, "drain", 2, 0, isr=False, timeout=900, solver="cadical")] + audit
    return [blk(1, "refusal", 2, 3, timeout=3500), blk(2, "release", 2, 4, timeout=3500), blk(2, "release", 1, 6, timeout=3000), blk(3, "drain", 3, 0, isr=False, solver="cadical")] + audit

META = dict(
    level="model_checking",
    bounds=dict(quick="1 reader, <=3/4 environment steps, arbitrary 64-bit INV pre-state, preemption before every shared access of channel_write_map (ISR)",
                thorough="2 readers with <=3/4 environment steps (27-38 min each on a loaded machine; 4/6 steps did not finish in 50 min), 1 reader with 6"),
    outside="more than 2 readers in the blocking harnesses; OS scheduler fairness (a runnable thread eventually runs); environment steps that block on the channel lock while the writer holds it are started after the release instead; more than ENV_MAX environment steps",
    assumptions=["lock/condition-variable model of env/plat_seq.c + harness sleep model: a broadcast wakes a sleeper only if it is already asleep, spurious wake-ups not needed for liveness",
                 "condition_variable_notify_all issued inside an environment step is delivered as a separate later step"],
)
