#!/usr/bin/env python3
"""Scratch prototype: LLVM-14 textual IR -> C (type-erased pointers, byte-offset GEPs)."""
import os, re, sys

class T:  # type
    def __init__(s, k, **kw): s.k = k; s.__dict__.update(kw)
    def __repr__(s): return s.k

class Mod:
    def __init__(s): s.types = {}; s.globals = {}; s.funcs = {}; s.decls = {}

PTR = 8
RPO = os.environ.get('IR2C_RPO') == '1'  # emit basic blocks in reverse post-order: only real loops keep backward jumps
TYPED_ALLOCA = os.environ.get('IR2C_TYPED_ALLOCA') == '1'  # stack objects of struct type become C structs with typed members
EH = os.environ.get('IR2C_EH') == '1'  # callees may throw: model unwinding through verif_exn
def skipws(x, i):
    while i < len(x) and x[i] in ' \t': i += 1
    return i

def parse_type(x, i, m):
    i = skipws(x, i)
    if x.startswith('void', i): t = T('void'); i += 4
    elif x.startswith('float', i): t = T('float'); i += 5
    elif x.startswith('double', i): t = T('double'); i += 6
    elif x.startswith('opaque', i): t = T('opaque'); i += 6
    elif x.startswith('...', i): t = T('varargs'); i += 3
    elif x[i] == 'i' and x[i+1].isdigit():
        j = i+1
        while j < len(x) and x[j].isdigit(): j += 1
        t = T('int', bits=int(x[i+1:j])); i = j
    elif x[i] == '[':
        mm = re.match(r'\[\s*(\d+)\s+x\s+', x[i:]); n = int(mm.group(1)); i += mm.end()
        e, i = parse_type(x, i, m); i = skipws(x, i); assert x[i] == ']', x[i:i+20]; i += 1
        t = T('array', n=n, e=e)
    elif x[i] == '{' or x.startswith('<{', i):
        packed = x[i] == '<'
        i += 2 if packed else 1
        fs = []
        i = skipws(x, i)
        if x[i] == '}': i += 1
        else:
            while True:
                f, i = parse_type(x, i, m); fs.append(f); i = skipws(x, i)
                if x[i] == ',': i += 1; continue
                assert x[i] == '}', x[i:i+30]; i += 1; break
        if packed: assert x[i] == '>'; i += 1
        t = T('struct', fs=fs, packed=packed)
    elif x[i] == '%':
        mm = re.match(r'%("(?:[^"\\]|\\.)*"|[\w.\-$]+)', x[i:]); name = mm.group(1); i += mm.end()
        t = T('named', name=name)
    else:
        raise Exception('type? ' + x[i:i+40])
    while True:
        i = skipws(x, i)
        if i < len(x) and x[i] == '*': t = T('ptr', to=t); i += 1
        elif i < len(x) and x[i] == '(':  # function type
            depth = 0; j = i
            while True:
                if x[j] == '(': depth += 1
                elif x[j] == ')':
                    depth -= 1
                    if depth == 0: break
                j += 1
            t = T('func', ret=t, sig=x[i:j+1]); i = j+1
        else: break
    return t, i

def resolve(t, m):
    while t.k == 'named': t = m.types[t.name]
    return t
def sizeof(t, m):
    t = resolve(t, m)
    if t.k == 'int': return max(1, (t.bits+7)//8)
    if t.k == 'float': return 4
    if t.k == 'double': return 8
    if t.k == 'ptr': return 8
    if t.k == 'array': return t.n*sizeof(t.e, m)
    if t.k == 'struct': return layout(t, m)[1]
    raise Exception('sizeof '+t.k)
def alignof(t, m):
    t = resolve(t, m)
    if t.k == 'int': return min(8, sizeof(t, m)) if sizeof(t,m) in (1,2,4,8) else 8
    if t.k in ('float',): return 4
    if t.k in ('double', 'ptr'): return 8
    if t.k == 'array': return alignof(t.e, m)
    if t.k == 'struct': return 1 if t.packed else max([alignof(f, m) for f in t.fs] or [1])
    raise Exception('alignof '+t.k)
def layout(t, m):
    off = 0; offs = []
    for f in t.fs:
        a = 1 if t.packed else alignof(f, m)
        off = (off + a-1)//a*a; offs.append(off); off += sizeof(f, m)
    a = alignof(t, m); off = (off+a-1)//a*a
    return offs, off

def ctype(t, m):
    t = resolve(t, m)
    if t.k == 'int':
        return {1:'uint8_t',8:'uint8_t',16:'uint16_t',32:'uint32_t',64:'uint64_t'}[t.bits]
    if t.k == 'float': return 'float'
    if t.k == 'double': return 'double'
    if t.k in ('ptr',): return 'char*'
    if t.k == 'void': return 'void'
    if t.k == 'struct': return None
    raise Exception('ctype '+t.k)
def cmember(t, m, name):
    """C declaration of one object/member of LLVM type t (layout-compatible: natural alignment)"""
    t = resolve(t, m)
    if t.k == 'int': return '%s %s' % ({1:'uint8_t',8:'uint8_t',16:'uint16_t',32:'uint32_t',64:'uint64_t'}[t.bits], name)
    if t.k == 'float': return 'float ' + name
    if t.k == 'double': return 'double ' + name
    if t.k == 'ptr': return 'char* ' + name
    if t.k == 'array': return cmember(t.e, m, '%s[%d]' % (name, t.n))
    if t.k == 'struct':
        body = ' '.join(cmember(f, m, 'f%d' % i) + ';' for i, f in enumerate(t.fs)) or 'char empty_;'
        return 'struct %s{ %s } %s' % ('__attribute__((packed)) ' if t.packed else '', body, name)
    raise Exception('cmember ' + t.k)
def stype(t, m):
    return {'uint8_t':'int8_t','uint16_t':'int16_t','uint32_t':'int32_t','uint64_t':'int64_t'}[ctype(t,m)]

ATTRS = set('noundef nonnull nocapture readonly readnone writeonly noalias signext zeroext returned immarg inreg nofree nest swiftself'.split())
def skip_attrs(x, i):
    while True:
        i = skipws(x, i)
        mm = re.match(r'(align \d+|dereferenceable(_or_null)?\(\d+\)|sret\(|byval\(|\w+)', x[i:])
        if not mm: return i
        w = mm.group(1)
        if w in ('sret(', 'byval('):
            depth = 0; j = i + len(w) - 1
            while True:
                if x[j] == '(': depth += 1
                elif x[j] == ')':
                    depth -= 1
                    if depth == 0: break
                j += 1
            i = j+1; continue
        if w.startswith('align ') or w.startswith('dereferenceable'): i += mm.end(); continue
        if w in ATTRS: i += mm.end(); continue
        return i

def mangle(n): return 'g_' + re.sub(r'[^A-Za-z0-9_]', '_', n.strip('"'))

class Fn:
    def __init__(s, name, ret, params, m, varargs):
        s.name = name; s.ret = ret; s.params = params; s.m = m; s.varargs = varargs
        s.blocks = []; s.vt = {}   # reg -> type
        s.va = {}   # reg -> va_list var name

def parse_value(x, i, t, fn):
    """returns (cexpr, newi)"""
    m = fn.m; i = skipws(x, i)
    mm = re.match(r'%("(?:[^"\\]|\\.)*"|[\w.\-$]+)', x[i:])
    if mm: return 'r_' + re.sub(r'\W', '_', mm.group(1)), i+mm.end()
    mm = re.match(r'@("(?:[^"\\]|\\.)*"|[\w.\-$]+)', x[i:])
    if mm:
        n = mm.group(1)
        return ('(char*)' + ('&' if True else '') + cname(n, m)), i+mm.end()
    for kw, val in (('null', '((char*)0)'), ('true', '1'), ('false', '0'), ('undef', '0'), ('poison', '0'), ('zeroinitializer', '0')):
        if x.startswith(kw, i): return val, i+len(kw)
    mm = re.match(r'-?\d+\.\d+e[+-]\d+', x[i:])
    if mm: return mm.group(0), i+mm.end()
    mm = re.match(r'0x[0-9A-Fa-f]+', x[i:])
    if mm:
        import struct
        v = struct.unpack('>d', bytes.fromhex(mm.group(0)[2:].rjust(16, '0')))[0]
        return repr(v), i+mm.end()
    mm = re.match(r'-?\d+', x[i:])
    if mm:
        v = int(mm.group(0)); rt = resolve(t, m)
        if rt.k == 'int':
            v &= (1 << rt.bits) - 1
            return '%dULL' % v if rt.bits == 64 else '%dU' % v, i+mm.end()
        return str(v), i+mm.end()
    if x.startswith('getelementptr', i):
        j = x.index('(', i); e, j2 = parse_gep_body(x, j+1, fn); j2 = skipws(x, j2); assert x[j2] == ')'; return e, j2+1
    if x.startswith('bitcast', i) or x.startswith('ptrtoint', i) or x.startswith('inttoptr', i):
        op = re.match(r'\w+', x[i:]).group(0)
        j = x.index('(', i); st, j = parse_type(x, j+1, m); v, j = parse_value(x, j, st, fn)
        j = skipws(x, j); assert x.startswith('to', j); dt, j = parse_type(x, j+2, m); j = skipws(x, j); assert x[j] == ')'
        return '((%s)(%s))' % (ctype(dt, m), v) if op != 'bitcast' else v, j+1
    raise Exception('value? ' + x[i:i+60])

def cname(n, m):
    n = n.strip('"')
    if n in m.globals: return mangle(n)
    return re.sub(r'[^A-Za-z0-9_]', '_', n)

def parse_gep_body(x, i, fn):
    m = fn.m
    i = skipws(x, i)
    if x.startswith('inbounds', i): i += 8
    bt, i = parse_type(x, i, m); i = skipws(x, i); assert x[i] == ','; i += 1
    pt, i = parse_type(x, i, m); p, i = parse_value(x, i, pt, fn)
    terms = []; const = 0; cur = bt; first = True
    while True:
        i = skipws(x, i)
        if i >= len(x) or x[i] != ',': break
        i += 1
        i = skipws(x, i)
        if x.startswith('!', i): break
        it, i = parse_type(x, i, m); v, i = parse_value(x, i, it, fn)
        isconst = re.fullmatch(r'\d+U(LL)?', v)
        if first:
            sz = sizeof(cur, m); first = False
            if isconst: const += int(re.match(r'\d+', v).group(0)) * sz if int(re.match(r'\d+', v).group(0)) < (1 << 63) else (int(re.match(r'\d+', v).group(0)) - (1 << 64)) * sz
            else: terms.append('(int64_t)(%s)(%s)*%d' % (stype(it, m), v, sz))
            continue
        rc = resolve(cur, m)
        if rc.k == 'struct':
            k = int(re.match(r'\d+', v).group(0)); const += layout(rc, m)[0][k]; cur = rc.fs[k]
        elif rc.k == 'array':
            sz = sizeof(rc.e, m)
            if isconst:
                k = int(re.match(r'\d+', v).group(0))
                if k >= (1 << 63): k -= (1 << 64)
                const += k*sz
            else: terms.append('(int64_t)(%s)(%s)*%d' % (stype(it, m), v, sz))
            cur = rc.e
        else: raise Exception('gep into ' + rc.k)
    e = '((char*)(%s) + (%d)' % (p, const) + ''.join(' + ' + t for t in terms) + ')'
    return e, i

def split_args(x):
    out = []; depth = 0; cur = ''
    for ch in x:
        if ch in '([{<': depth += 1
        if ch in ')]}>': depth -= 1
        if ch == ',' and depth == 0: out.append(cur); cur = ''
        else: cur += ch
    if cur.strip(): out.append(cur)
    return out

def parse_module(text):
    m = Mod(); lines = text.split('\n'); i = 0
    for ln in lines:
        mm = re.match(r'(%(?:"(?:[^"\\]|\\.)*"|[\w.\-$]+)) = type (.*)$', ln)
        if mm:
            name = mm.group(1)[1:]
            m.types[name] = None
    for ln in lines:
        mm = re.match(r'(%(?:"(?:[^"\\]|\\.)*"|[\w.\-$]+)) = type (.*)$', ln)
        if mm: m.types[mm.group(1)[1:]] = parse_type(mm.group(2), 0, m)[0]
    # globals
    for ln in lines:
        mm = re.match(r'@("(?:[^"\\]|\\.)*"|[\w.\-$]+) = (.*)$', ln)
        if not mm: continue
        name = mm.group(1).strip('"'); rest = mm.group(2)
        if ' external ' in ' ' + rest + ' ' and 'constant' in rest and 'c"' not in rest and '[' not in rest.split('constant')[1][:3]:
            m.globals[name] = ('extern', None); continue
        if re.match(r'external (?:local_unnamed_addr )?global ', rest):
            m.globals[name] = ('extern', None); continue
        mc = re.search(r'(constant|global) (.*)$', rest); body = mc.group(2)
        t, j = parse_type(body, 0, m); init = body[j:].split(', align')[0].strip()
        m.globals[name] = (t, init)
    m.attrs = {}
    for ln in lines:
        mm = re.match(r'attributes #(\d+) = \{(.*)\}', ln)
        if mm: m.attrs[mm.group(1)] = mm.group(2)
    # functions
    i = 0
    while i < len(lines):
        ln = lines[i]
        if ln.startswith('declare '):
            mm = re.match(r'declare (.*?)@("(?:[^"\\]|\\.)*"|[\w.\-$]+)\((.*)\)', ln)
            m.decls[mm.group(2).strip('"')] = ln
        if ln.startswith('define '):
            hdr = ln; body = []; i += 1
            while lines[i] != '}': body.append(lines[i]); i += 1
            parse_function(hdr, body, m)
        i += 1
    return m

RETATTR = r'(?:(?:dso_local|internal|linkonce_odr|weak_odr|private|hidden|fastcc|noundef|nonnull|noalias|signext|zeroext|local_unnamed_addr|unnamed_addr|dereferenceable(?:_or_null)?\(\d+\)|align \d+) )*'
def parse_function(hdr, body, m):
    mm = re.match(r'define ' + RETATTR, hdr); j = mm.end()
    rt, j = parse_type(hdr, j, m); j = skipws(hdr, j)
    mm = re.match(r'@("(?:[^"\\]|\\.)*"|[\w.\-$]+)\(', hdr[j:]); name = mm.group(1).strip('"'); j += mm.end()
    depth = 1; k = j
    while depth:
        if hdr[k] == '(': depth += 1
        if hdr[k] == ')': depth -= 1
        k += 1
    params = []; varargs = False
    for a in split_args(hdr[j:k-1]):
        a = a.strip()
        if a == '...': varargs = True; continue
        t, q = parse_type(a, 0, m); q = skip_attrs(a, q); pn = a[q:].strip()
        params.append((t, 'r_' + re.sub(r'\W', '_', pn[1:])))
    fn = Fn(name, rt, params, m, varargs)
    ga = re.search(r'#(\d+)', hdr[k:]); fn.attr = ga.group(1) if ga else ''
    fn.static = bool(re.match(r'define (?:dso_local )?(internal|linkonce_odr|weak_odr|private)\b', hdr))
    for t, n in params: fn.vt[n] = t
    # join continuation lines (invoke / switch / landingpad)
    joined = []
    for ln in body:
        if not ln.strip() or ln.strip().startswith(';'): continue
        s = ln.rstrip()
        if joined and (s.startswith('          ') or (joined[-1].lstrip().startswith('switch') and not joined[-1].rstrip().endswith(']'))):
            joined[-1] += ' ' + s.strip()
        else: joined.append(s)
    cur = ('entry', [])
    fn.blocks.append(cur)
    for s in joined:
        mm = re.match(r'^([\w.\-$]+):', s)
        if mm: cur = (mm.group(1), []); fn.blocks.append(cur); continue
        cur[1].append(s.strip())
    # the first block's label is the next unnamed number = number of params
    fn.blocks[0] = (str(len(params) + (0)), fn.blocks[0][1]) if True else fn.blocks[0]
    m.funcs[name] = fn

def lbl(fn, n): return 'L_' + re.sub(r'\W', '_', n)

def emit_function(fn, out):
    m = fn.m; decl = []; code = []
    phis = {}  # block -> list of (dst, type, {pred: valexpr})
    # first pass: types of all results + phis
    for bn, ins in fn.blocks:
        for s in ins:
            mm = re.match(r'%("(?:[^"\\]|\\.)*"|[\w.\-$]+) = (\w+) (.*)$', s)
            if not mm: continue
            r = 'r_' + re.sub(r'\W', '_', mm.group(1)); op = mm.group(2); rest = mm.group(3)
            t = None
            if op == 'alloca': t = T('ptr', to=None)
            elif op in ('load',): t = parse_type(re.sub(r'^(?:atomic )?(?:volatile )?', '', rest), 0, m)[0]
            elif op == 'atomicrmw':
                t = parse_type(split_args(re.sub(r'^(?:volatile )?\w+ ', '', rest))[1].strip(), 0, m)[0]
            elif op in ('getelementptr',): t = T('ptr', to=None)
            elif op in ('bitcast', 'ptrtoint', 'inttoptr', 'trunc', 'zext', 'sext', 'fptoui', 'fptosi', 'uitofp', 'sitofp', 'fpext', 'fptrunc'):
                t = parse_type(rest[rest.rindex(' to ')+4:], 0, m)[0]
            elif op in ('icmp', 'fcmp'): t = T('int', bits=1)
            elif op == 'select':
                a = split_args(rest); t = parse_type(a[1], 0, m)[0]
            elif op == 'phi': t = parse_type(rest, 0, m)[0]
            elif op in ('call', 'invoke', 'tail', 'musttail', 'notail'):
                r2 = re.sub(r'^(call|invoke) ', '', op + ' ' + rest) if op in ('call', 'invoke') else re.sub(r'^\w+ call ', '', op + ' ' + rest)
                r2 = re.sub(r'^' + RETATTR, '', r2); t = parse_type(r2, 0, m)[0]
                if t.k == 'func': t = t.ret
            elif op in ('landingpad', 'extractvalue'): t = T('ptr', to=None)
            else:
                r2 = re.sub(r'^(?:(?:nuw|nsw|exact|fast|nnan|ninf|nsz|arcp|contract|afn|reassoc) )*', '', rest); t = parse_type(r2, 0, m)[0]
            fn.vt[r] = t
    for r, t in fn.vt.items():
        if any(r == p[1] for p in fn.params): continue
        ct = ctype(t, m) if resolve(t, m).k != 'struct' else 'char*'
        decl.append('  %s %s;' % (ct, r))
    # second pass
    nva = [0]
    def edge(frm, to):
        s = ''
        ps = phis_for.get(to, [])
        if ps:
            tmp = []
            for k, (dst, t, inc) in enumerate(ps):
                tmp.append('%s phi_t%d = %s;' % (ctype(t, m) or 'char*', k, inc[frm]))
            s = '{ ' + ' '.join(tmp) + ' ' + ' '.join('%s = phi_t%d;' % (p[0], k) for k, p in enumerate(ps)) + ' } '
        return s + 'goto %s;' % lbl(fn, to)
    phis_for = {}
    for bn, ins in fn.blocks:
        for s in ins:
            mm = re.match(r'%("(?:[^"\\]|\\.)*"|[\w.\-$]+) = phi (.*)$', s)
            if mm:
                r = 'r_' + re.sub(r'\W', '_', mm.group(1)); t, j = parse_type(mm.group(2), 0, m); inc = {}
                for g in re.finditer(r'\[\s*(.*?),\s*%([\w.\-$]+)\s*\]', mm.group(2)[j:]):
                    inc[g.group(2)] = parse_value(g.group(1), 0, t, fn)[0]
                phis_for.setdefault(bn, []).append((r, t, inc))
    order = fn.blocks
    if RPO:
        succ = {}
        for bn, ins in fn.blocks:
            t = ins[-1] if ins else ''
            succ[bn] = re.findall(r'label %([\w.\-$]+)', t)
        seen = set(); post = []
        def dfs(b0):
            st = [(b0, iter(succ.get(b0, [])))]; seen.add(b0)
            while st:
                b, it = st[-1]
                for nx in it:
                    if nx not in seen and nx in succ: seen.add(nx); st.append((nx, iter(succ[nx]))); break
                else: post.append(b); st.pop()
        dfs(fn.blocks[0][0])
        rpo = list(reversed(post)); pos = {b: i for i, b in enumerate(rpo)}
        byname = dict(fn.blocks)
        order = [(b, byname[b]) for b in rpo] + [(b, ins) for b, ins in fn.blocks if b not in pos]
        if order[0][0] != fn.blocks[0][0]: raise Exception('entry block is not first in RPO')
    for bn, ins in order:
        code.append('%s: ;' % lbl(fn, bn))
        # landing pads are only entered through `invoke @__cxa_throw` of the same function (callees
        # are C functions / noexcept and never unwind: their invoke gets the normal edge only)
        for s in ins:
            code.append('  ' + emit_ins(fn, bn, s, edge, nva, decl))
    ps = ', '.join('%s %s' % (ctype(t, m), n) for t, n in fn.params) + (', ...' if fn.varargs else '')
    out.append('%s%s %s(%s) {' % ('static ' if getattr(fn, 'static', False) else '', ctype(fn.ret, m), cname(fn.name, m), ps or 'void'))
    if EH: decl.append('  char* lp_exn = 0;')
    out.extend(decl); out.extend(code); out.append('}\n')

def zero_ret(fn):
    return 'return;' if resolve(fn.ret, fn.m).k == 'void' else 'return 0;'

NOUNWIND_C = set('strlen strncmp free realloc malloc memcpy memset memmove snprintf vsnprintf aq_logger device_kind_as_string device_identifier_as_debug_string __cxa_begin_catch __cxa_end_catch __cxa_allocate_exception __cxa_free_exception'.split())
def nounwind(fn, nm, tail):
    m = fn.m
    if nm in NOUNWIND_C: return True
    g = re.search(r'#(\d+)', tail)
    if g and 'nounwind' in m.attrs.get(g.group(1), ''): return True
    d = m.decls.get(nm)
    if d:
        g = re.search(r'#(\d+)\s*$', d)
        if g and 'nounwind' in m.attrs.get(g.group(1), ''): return True
    f = m.funcs.get(nm)
    if f is not None and 'nounwind' in m.attrs.get(getattr(f, 'attr', ''), ''): return True
    return False

def callee_and_args(fn, x):
    """x starts after 'call '/'invoke ' and fast-math/cc/ret attrs"""
    m = fn.m
    x = re.sub(r'^' + RETATTR, '', x)
    rt, i = parse_type(x, 0, m); i = skipws(x, i)
    fty = None
    if rt.k == 'func': fty = rt; rt = rt.ret
    if rt.k == 'ptr' and resolve(rt.to, m).k == 'func' if rt.k == 'ptr' and rt.to is not None else False: pass
    mm = re.match(r'(@("(?:[^"\\]|\\.)*"|[\w.\-$]+)|%("(?:[^"\\]|\\.)*"|[\w.\-$]+))\(', x[i:])
    target = mm.group(1); i += mm.end()
    depth = 1; k = i
    while depth:
        if x[k] == '(': depth += 1
        if x[k] == ')': depth -= 1
        k += 1
    args = []
    for a in split_args(x[i:k-1]):
        a = a.strip()
        if not a or a.startswith('metadata'): continue
        t, q = parse_type(a, 0, m); q = skip_attrs(a, q)
        v, _ = parse_value(a, q, t, fn); args.append((t, v))
    return rt, fty, target, args, x[k:]

def emit_ins(fn, bn, s, edge, nva, decl):
    m = fn.m
    mm = re.match(r'%("(?:[^"\\]|\\.)*"|[\w.\-$]+) = (.*)$', s)
    r = None
    if mm: r = 'r_' + re.sub(r'\W', '_', mm.group(1)); s = mm.group(2)
    op = s.split()[0]; rest = s[len(op):].strip()
    if op == 'alloca':
        t, j = parse_type(rest, 0, m)
        if resolve(t, m).k == 'array' and resolve(resolve(t, m).e, m).k == 'struct' and 'va_list_tag' in rest:
            v = 'valist%d' % nva[0]; nva[0] += 1; decl.append('  va_list %s;' % v); fn.va[r] = v
            return '%s = (char*)&%s;' % (r, v)
        n = 'mem_' + r
        if TYPED_ALLOCA and resolve(t, m).k == 'struct' and resolve(t, m).fs:
            decl.append('  %s __attribute__((aligned(16))) = {0};' % cmember(t, m, n))
            decl.append('  char szchk_%s[sizeof(%s) == %d ? 1 : -1];' % (r, n, sizeof(t, m)))
            return '%s = (char*)&%s;' % (r, n)
        decl.append('  char %s[%d] __attribute__((aligned(16))) = {0};' % (n, max(1, sizeof(t, m))))
        return '%s = %s;' % (r, n)
    if op == 'atomicrmw':
        rest = re.sub(r'^(?:volatile )?', '', rest); aop = rest.split()[0]; a = split_args(rest[len(aop):])
        pt, j = parse_type(a[0].strip(), 0, m); p, _ = parse_value(a[0].strip(), j, pt, fn)
        t, j = parse_type(a[1].strip(), 0, m); v, _ = parse_value(a[1].strip(), j, t, fn)
        cop = {'add': '+', 'sub': '-', 'and': '&', 'or': '|', 'xor': '^'}[aop]; ct = ctype(t, m)
        return '%s = *(%s*)(%s); *(%s*)(%s) = (%s)(%s %s (%s));' % (r, ct, p, ct, p, ct, r, cop, v)
    if op == 'load':
        rest = re.sub(r'^(?:atomic )?(?:volatile )?', '', rest)
        t, j = parse_type(rest, 0, m); j = skipws(rest, j) + 1; pt, j = parse_type(rest, j, m); p, j = parse_value(rest, j, pt, fn)
        return '%s = *(%s*)(%s);' % (r, ctype(t, m), p)
    if op == 'store':
        t, j = parse_type(rest, 0, m); v, j = parse_value(rest, j, t, fn); j = skipws(rest, j) + 1
        pt, j = parse_type(rest, j, m); p, j = parse_value(rest, j, pt, fn)
        return '*(%s*)(%s) = %s;' % (ctype(t, m), p, v)
    if op == 'getelementptr':
        e, _ = parse_gep_body(rest, 0, fn)
        # propagate va_list identity through trivial geps/bitcasts
        mm0 = re.match(r'^\(?\(char\*\)\((r_\w+)\) \+ \(0\)\)?$', e.strip())
        if mm0 and mm0.group(1) in fn.va: fn.va[r] = fn.va[mm0.group(1)]
        return '%s = %s;' % (r, e)
    if op in ('bitcast', 'ptrtoint', 'inttoptr', 'trunc', 'zext', 'fptoui', 'uitofp', 'fpext', 'fptrunc'):
        t, j = parse_type(rest, 0, m); v, j = parse_value(rest, j, t, fn); dt = fn.vt[r]
        if op == 'bitcast':
            if v in fn.va: fn.va[r] = fn.va[v]
            return '%s = (%s)(%s);' % (r, ctype(dt, m), v)
        if op == 'trunc' and resolve(dt, m).bits == 1: return '%s = (%s) & 1;' % (r, v)
        return '%s = (%s)(%s);' % (r, ctype(dt, m), v)
    if op in ('sext', 'sitofp', 'fptosi'):
        t, j = parse_type(rest, 0, m); v, j = parse_value(rest, j, t, fn); dt = fn.vt[r]
        if op == 'sext':
            if resolve(t, m).bits == 1: return '%s = (%s)(-(int64_t)(%s));' % (r, ctype(dt, m), v)
            return '%s = (%s)(%s)(%s)(%s);' % (r, ctype(dt, m), stype(dt, m), stype(t, m), v)
        if op == 'sitofp': return '%s = (%s)(%s)(%s);' % (r, ctype(dt, m), stype(t, m), v)
        return '%s = (%s)(%s)(%s);' % (r, ctype(dt, m), stype(dt, m), v)
    BIN = {'add': '+', 'sub': '-', 'mul': '*', 'and': '&', 'or': '|', 'xor': '^', 'shl': '<<', 'lshr': '>>', 'udiv': '/', 'urem': '%', 'fadd': '+', 'fsub': '-', 'fmul': '*', 'fdiv': '/'}
    if op in BIN or op in ('ashr', 'sdiv', 'srem'):
        rest = re.sub(r'^(?:(?:nuw|nsw|exact|fast|nnan|ninf|nsz|arcp|contract|afn|reassoc) )*', '', rest)
        t, j = parse_type(rest, 0, m); a, j = parse_value(rest, j, t, fn); j = skipws(rest, j) + 1; b, j = parse_value(rest, j, t, fn)
        ct = ctype(t, m)
        if op in BIN:
            e = '(%s)((%s)(%s) %s (%s)(%s))' % (ct, ct, a, BIN[op], ct, b)
            if resolve(t, m).k == 'int' and resolve(t, m).bits == 1: e = '(%s) & 1' % e
            return '%s = %s;' % (r, e)
        st = stype(t, m); cop = {'ashr': '>>', 'sdiv': '/', 'srem': '%'}[op]
        return '%s = (%s)((%s)(%s) %s (%s)(%s));' % (r, ct, st, a, cop, st if op != 'ashr' else ct, b)
    if op in ('icmp', 'fcmp'):
        pred = rest.split()[0]; rest2 = rest[len(pred):]
        t, j = parse_type(rest2, 0, m); a, j = parse_value(rest2, j, t, fn); j = skipws(rest2, j) + 1; b, j = parse_value(rest2, j, t, fn)
        P = {'eq': '==', 'ne': '!=', 'ugt': '>', 'uge': '>=', 'ult': '<', 'ule': '<=', 'sgt': '>', 'sge': '>=', 'slt': '<', 'sle': '<=',
             'oeq': '==', 'one': '!=', 'ogt': '>', 'oge': '>=', 'olt': '<', 'ole': '<=', 'une': '!=', 'ueq': '=='}
        if resolve(t, m).k == 'ptr': a = '(uintptr_t)(%s)' % a; b = '(uintptr_t)(%s)' % b
        elif pred[0] == 's' and op == 'icmp': a = '(%s)(%s)' % (stype(t, m), a); b = '(%s)(%s)' % (stype(t, m), b)
        return '%s = (%s) %s (%s);' % (r, a, P[pred], b)
    if op == 'select':
        a = split_args(rest); ct, j = parse_type(a[0], 0, m); c, _ = parse_value(a[0], j, ct, fn)
        t, j = parse_type(a[1], 0, m); x1, _ = parse_value(a[1], j, t, fn); t2, j = parse_type(a[2], 0, m); x2, _ = parse_value(a[2], j, t2, fn)
        return '%s = (%s) ? (%s) : (%s);' % (r, c, x1, x2)
    if op == 'phi': return '/* phi %s */;' % r
    if op == 'br':
        if rest.startswith('label'):
            return edge(bn, rest.split('%')[1].strip())
        mm = re.match(r'i1 (.*?), label %([\w.\-$]+), label %([\w.\-$]+)', rest)
        c, _ = parse_value(mm.group(1), 0, T('int', bits=1), fn)
        return 'if (%s) { %s } else { %s }' % (c, edge(bn, mm.group(2)), edge(bn, mm.group(3)))
    if op == 'switch':
        t, j = parse_type(rest, 0, m); v, j = parse_value(rest, j, t, fn)
        mm = re.match(r'\s*,\s*label %([\w.\-$]+)\s*\[(.*)\]', rest[j:]); dflt = mm.group(1); s2 = ''
        for g in re.finditer(r'i\d+ (-?\d+), label %([\w.\-$]+)', mm.group(2)):
            cv, _ = parse_value(g.group(1), 0, t, fn)
            s2 += 'if ((%s) == %s) { %s } ' % (v, cv, edge(bn, g.group(2)))
        return s2 + edge(bn, dflt)
    if op == 'ret':
        if rest.startswith('void'): return 'return;'
        t, j = parse_type(rest, 0, m); v, j = parse_value(rest, j, t, fn); return 'return %s;' % v
    if op == 'unreachable': return '__CPROVER_assume(0);'
    if op == 'resume': return ('verif_exn = lp_exn; ' + zero_ret(fn)) if EH else '__CPROVER_assume(0);'
    if op == 'landingpad': return ('lp_exn = verif_exn; verif_exn = 0; %s = 0;' % r) if EH else '%s = 0;' % r
    if op == 'extractvalue':
        idx = rest.rsplit(',', 1)[1].strip()
        # {i8* exception object, i32 selector}: the only catchable type is std::exception (selector 1)
        if EH: return ('%s = lp_exn;' % r) if idx == '0' else ('%s = (char*)1;' % r)
        return ('%s = (char*)verif_exn;' % r) if idx == '0' else ('%s = (char*)1;' % r)
    if op in ('call', 'invoke', 'tail', 'musttail', 'notail'):
        x = s
        x = re.sub(r'^(tail |musttail |notail )?(call|invoke) ', '', x)
        x = re.sub(r'^(?:(?:fast|nnan|ninf|nsz|arcp|contract|afn|reassoc) )*', '', x)
        rt, fty, target, args, tail = callee_and_args(fn, x)
        nm = target[1:].strip('"')
        after = ''
        maythrow = EH and not nm.startswith('llvm.') and not nounwind(fn, nm, tail)
        if op == 'invoke':
            mm = re.search(r'to label %([\w.\-$]+) unwind label %([\w.\-$]+)', tail)
            after = ' ' + edge(bn, mm.group(1))
            if nm == '__cxa_throw': return 'verif_exn = (char*)(%s); ' % args[0][1] + edge(bn, mm.group(2))
            if maythrow: after = ' if (verif_exn) { %s } else { %s }' % (edge(bn, mm.group(2)), edge(bn, mm.group(1)))
        elif EH and nm == '__cxa_throw': return 'verif_exn = (char*)(%s); ' % args[0][1] + zero_ret(fn)
        elif maythrow: after = ' if (verif_exn) { %s }' % zero_ret(fn)
        if nm.startswith('llvm.assume') or nm.startswith('llvm.lifetime') or nm.startswith('llvm.experimental.noalias') or nm.startswith('llvm.dbg'): return ';' + after
        if nm.startswith('llvm.memcpy') or nm.startswith('llvm.memmove'): return 'memmove(%s, %s, %s);' % (args[0][1], args[1][1], args[2][1]) + after
        if nm.startswith('llvm.memset'): return 'memset(%s, %s, %s);' % (args[0][1], args[1][1], args[2][1]) + after
        def vaof(v):
            v = v.strip()
            while v.startswith('(char*)') or (v.startswith('(') and v.endswith(')')):
                v = v[7:] if v.startswith('(char*)') else v[1:-1]
                v = v.strip()
            mm2 = re.match(r'\(?\(char\*\)\((r_\w+)\) \+ \(0\)\)?', v)
            if mm2: v = mm2.group(1)
            return fn.va.get(v)
        if nm == 'llvm.va_start': return 'va_start(%s, %s);' % (vaof(args[0][1]) or 'VA?', fn.params[-1][1]) + after
        if nm == 'llvm.va_end': return 'va_end(%s);' % (vaof(args[0][1]) or 'VA?') + after
        if nm == 'llvm.va_copy': return 'va_copy(%s, %s);' % (vaof(args[0][1]) or 'VA?', vaof(args[1][1]) or 'VA?') + after
        if nm == 'llvm.eh.typeid.for': return '%s = 1;' % r + after
        cargs = []
        for t, v in args:
            if vaof(v) and nm == 'vsnprintf': cargs.append(vaof(v))
            else: cargs.append(v)
        if target[0] == '@':
            f = cname(nm, m); used_externs.setdefault(nm, (rt, [a[0] for a in args], fty))
            call = '%s(%s)' % (f, ', '.join(cargs))
        else:
            pv, _ = parse_value(target, 0, T('ptr', to=None), fn)
            sig = ', '.join(ctype(a[0], m) for a in args) or 'void'
            call = '((%s (*)(%s))(%s))(%s)' % (ctype(rt, m), sig, pv, ', '.join(cargs))
        if r and rt.k != 'void': return '%s = %s;' % (r, call) + after
        return call + ';' + after
    raise Exception('ins? ' + s)

used_externs = {}

def emit_module(m, want=None):
    out = ['#include <stdint.h>', '#include <stddef.h>', '#include <stdarg.h>', '#include <string.h>', ('char* verif_exn; /* exception in flight; set by the harness models of throwing library functions */' if EH else 'static char* verif_exn; /* exception in flight */'), '']
    gl = []
    for n, (t, init) in m.globals.items():
        if t == 'extern': gl.append('extern char %s[];' % cname(n, m)); continue
        rt = resolve(t, m)
        if init.startswith('c"'):
            raw = init[2:init.rindex('"')]; bs = []; k = 0
            while k < len(raw):
                if raw[k] == '\\' and raw[k+1] == '\\': bs.append(92); k += 2
                elif raw[k] == '\\': bs.append(int(raw[k+1:k+3], 16)); k += 3
                else: bs.append(ord(raw[k])); k += 1
            gl.append('static char %s[%d] = {%s};' % (mangle(n), len(bs), ','.join(map(str, bs))))
        elif rt.k == 'array' and resolve(rt.e, m).k == 'int':
            vals = re.findall(r'i\d+ (-?\d+)', init)
            gl.append('static %s %s[%d] = {%s};' % (ctype(rt.e, m), mangle(n), rt.n, ','.join(vals)))
        else: gl.append('/* global %s skipped: %s */' % (n, init[:40]))
    body = []
    fns = [f for n, f in m.funcs.items() if want is None or n in want]
    for f in fns: emit_function(f, body)
    protos = []
    for n, f in m.funcs.items():
        ps = ', '.join(ctype(t, m) for t, _ in f.params) + (', ...' if f.varargs else '')
        if want is not None and n not in want:
            # defined in the module but not translated: provided by the harness (model), external linkage
            if EH and n not in used_externs: continue
            protos.append('%s %s(%s);' % (ctype(f.ret, m), cname(n, m), ps or 'void'))
            continue
        protos.append('%s%s %s(%s);' % ('static ' if getattr(f, 'static', False) else '', ctype(f.ret, m), cname(n, m), ps or 'void'))
    for n, (rt, ats, fty) in used_externs.items():
        if n in m.funcs and (want is None or n in want): continue
        if n in ('vsnprintf',): protos.append('int vsnprintf(char*, size_t, const char*, va_list);'); continue
        if n in ('strlen', 'strncmp', 'free', 'realloc', 'malloc', 'memcpy', 'memset', 'memmove'): continue
        va = fty is not None and '...' in fty.sig
        if va:
            nfix = len(split_args(fty.sig[1:-1])) - 1; ats = ats[:nfix]
        protos.append('%s %s(%s%s);' % (ctype(rt, m), cname(n, m), ', '.join(ctype(a, m) for a in ats) or ('void' if not va else ''), ', ...' if va else ''))
    out.append('#include <stdlib.h>')
    out.extend(gl); out.append(''); out.extend(protos); out.append(''); out.extend(body)
    return '\n'.join(out)

if __name__ == '__main__':
    m = parse_module(open(sys.argv[1]).read())
    want = set(sys.argv[3:]) or None
    open(sys.argv[2], 'w').write(emit_module(m, want))
    print('functions:', [n for n in m.funcs if want is None or n in want])
