/* shared by both sides of the differential validation of device.manager.cpp: mock driver
 * libraries behind driver_load, and the C helpers the unit calls */
#include <stdint.h>
#include <stddef.h>
#include <string.h>
#include <stdio.h>
#include "device/kit/driver.h"

void aq_logger(int is_error, const char* file, int line, const char* function, const char* fmt, ...) {}
const char* device_kind_as_string(enum DeviceKind k) { return "kind"; }
size_t device_identifier_as_debug_string(char* buf, size_t n, const struct DeviceIdentifier* id) { if (n) buf[0] = 0; return 0; }

struct dev { enum DeviceKind kind; const char* name; };
static const struct dev lib0[] = { { DeviceKind_Camera, "simulated: uniform random" }, { DeviceKind_Camera, "simulated: radial sin" }, { DeviceKind_Camera, "simulated: empty" },
                                   { DeviceKind_Storage, "raw" }, { DeviceKind_Storage, "tiff" }, { DeviceKind_Storage, "trash" }, { DeviceKind_Storage, "tiff-json" } };
static const struct dev lib2[] = { { DeviceKind_Storage, "Trash" }, { DeviceKind_Camera, "Another RANDOM camera" }, { DeviceKind_StageAxis, "x" } };
struct lib { struct Driver driver; const struct dev* devs; unsigned n; int shutdowns; };
static struct lib libs[6];
static unsigned count_(struct Driver* d) { return ((struct lib*)d)->n; }
static enum DeviceStatusCode
describe_(const struct Driver* d, struct DeviceIdentifier* id, uint64_t i)
{
    const struct lib* l = (const struct lib*)d;
    if (l == &libs[2] && i == 2) return Device_Err; /* one device fails to describe */
    memset(id, 0, sizeof *id);
    id->device_id = (uint8_t)i; id->kind = l->devs[i].kind; id->driver_id = 99;
    strncpy(id->name, l->devs[i].name, sizeof id->name - 1);
    return Device_Ok;
}
static enum DeviceStatusCode shutdown_(struct Driver* d) { ((struct lib*)d)->shutdowns++; return Device_Ok; }
static int nload;
struct Driver*
driver_load(const char* path, void (*reporter)(int, const char*, int, const char*, const char*))
{
    int k = nload++ % 6;
    if (k != 0 && k != 2) return 0; /* library absent */
    libs[k].driver.device_count = count_; libs[k].driver.describe = describe_; libs[k].driver.shutdown = shutdown_;
    libs[k].devs = k == 0 ? lib0 : lib2; libs[k].n = k == 0 ? 7 : 3;
    return &libs[k].driver;
}
int dm_lib_index(const struct Driver* d) { return d ? (int)((const struct lib*)d - libs) : -1; }
int dm_lib_shutdowns(int k) { return libs[k].shutdowns; }
