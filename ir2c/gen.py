#!/usr/bin/env python3
"""C++ unit -> LLVM IR (clang++-14 -O1) -> C (ir2c.py), plus the differential validation that
every run performs before the generated C is given to CBMC:
   real:  g++ build of the repo's .cpp          \\  same driver, same scenarios (frame shapes,
   model: gcc build of the generated C           /  packet groupings, metadata), files compared
A byte difference (or a translator refusal) makes the harness INCONCLUSIVE, never passed."""
import os, subprocess, sys, hashlib

HERE = os.path.dirname(os.path.abspath(__file__))
INC = ["acquire-driver-common/src/simcams/3rdParty/pcg-c-basic-0.9", "acquire-core-libs/src/acquire-core-platform/linux",
       "acquire-core-libs/src/acquire-core-logger", "acquire-core-libs/src/acquire-device-kit", "acquire-core-libs/src/acquire-device-properties"]
SUPPORT = ["acquire-core-libs/src/acquire-core-platform/linux/platform.c", "acquire-core-libs/src/acquire-device-properties/device/props/storage.c",
           "acquire-core-libs/src/acquire-device-properties/device/props/components.c", "acquire-core-libs/src/acquire-core-logger/logger.c"]

def sh(cmd, **kw):
    p = subprocess.run(cmd, capture_output=True, text=True, **kw)
    if p.returncode != 0:
        raise RuntimeError("command failed: %s\n%s" % (" ".join(cmd)[:400], (p.stderr or p.stdout)[-2000:]))
    return p.stdout

def translate(repo, cpp, outdir, name):
    """returns path of the generated C file"""
    incs = ["-I" + os.path.join(repo, i) for i in INC]
    ll = os.path.join(outdir, name + ".ll")
    c = os.path.join(outdir, name + "_gen.c")
    sh(["clang++-14", "-std=gnu++20", "-O1", "-fno-vectorize", "-fno-slp-vectorize", "-fno-unroll-loops", "-DNDEBUG", "-DNO_UNIT_TESTS"] + incs +
       ["-S", "-emit-llvm", "-o", ll, os.path.join(repo, cpp)])
    # reverse post-order block emission: only real loops keep backward jumps (LLVM's block order puts
    # landing pads so that every function looks like a nest of loops to CBMC)
    env = dict(os.environ); env["IR2C_RPO"] = "1"
    sh([sys.executable, os.path.join(HERE, "ir2c.py"), ll, c], env=env)
    return c

def validate_tiff(repo, gen_c, outdir):
    """differential run of the generated C against the g++ build of tiff.cpp"""
    incs = ["-I" + os.path.join(repo, i) for i in INC]
    sup = [os.path.join(repo, s) for s in SUPPORT]
    drv = os.path.join(HERE, "tiff_diff_driver.c")
    shim = os.path.join(HERE, "tiff_shim.c")
    real = os.path.join(outdir, "tiff_real.bin")
    model = os.path.join(outdir, "tiff_model.bin")
    objs = []
    for s in sup + [drv]:
        o = os.path.join(outdir, os.path.basename(s) + ".o")
        sh(["gcc", "-std=gnu11", "-O0", "-w", "-DNDEBUG", "-DNO_UNIT_TESTS", "-c", "-o", o] + incs + [s])
        objs.append(o)
    o_real = os.path.join(outdir, "tiff_real.o")
    # zero-initialise stack slots on both sides: the real code leaves the upper bytes of 32-bit tag values indeterminate
    sh(["g++", "-std=gnu++20", "-O0", "-w", "-ftrivial-auto-var-init=zero", "-DNDEBUG", "-c", "-o", o_real] + incs + [os.path.join(repo, "acquire-driver-common/src/storage/tiff.cpp")])
    sh(["g++", "-o", real] + objs + [o_real, "-lpthread", "-ldl"])
    o_model = os.path.join(outdir, "tiff_model.o")
    sh(["gcc", "-std=gnu11", "-O0", "-w", "-ftrivial-auto-var-init=zero", "-c", "-o", o_model, gen_c])
    o_shim = os.path.join(outdir, "tiff_shim.o")
    sh(["gcc", "-std=gnu11", "-O0", "-w", "-c", "-o", o_shim, shim])
    sh(["gcc", "-o", model] + objs + [o_model, o_shim, "-lpthread", "-ldl", "-lm"])
    n = 0
    for scen in range(6):
        fa, fb = os.path.join(outdir, "real_%d.tif" % scen), os.path.join(outdir, "model_%d.tif" % scen)
        for f in (fa, fb):
            if os.path.exists(f): os.remove(f)
        ra = subprocess.run([real, fa, str(scen)], capture_output=True)
        rb = subprocess.run([model, fb, str(scen)], capture_output=True)
        if ra.returncode != rb.returncode:
            raise RuntimeError("differential validation: exit codes differ in scenario %d (%d vs %d)" % (scen, ra.returncode, rb.returncode))
        a, b = open(fa, "rb").read(), open(fb, "rb").read()
        if a != b:
            raise RuntimeError("differential validation: generated C writes a different file than the g++ build (scenario %d, %d vs %d bytes)" % (scen, len(a), len(b)))
        n += 1
    for f in os.listdir(outdir):
        if f.endswith(".tif") or f.endswith(".bin") or f.endswith(".o"):
            os.remove(os.path.join(outdir, f))
    return n


def validate_dm(repo, gen_c, outdir, incs):
    """differential run of the C translation of device.manager.cpp against its g++ build"""
    drv, sup, shim = (os.path.join(HERE, f) for f in ("dm_diff_driver.c", "dm_support.c", "dm_shim.c"))
    real, model = os.path.join(outdir, "dm_real.bin"), os.path.join(outdir, "dm_model.bin")
    objs = []
    for s in (drv, sup):
        o = os.path.join(outdir, os.path.basename(s) + ".o")
        sh(["gcc", "-std=gnu11", "-O0", "-w", "-c", "-o", o] + incs + [s]); objs.append(o)
    o_real = os.path.join(outdir, "dm_real.o")
    san = ["-fsanitize=address,undefined", "-fno-sanitize-recover=all"]
    sh(["g++", "-std=gnu++20", "-O0", "-g", "-w", "-DNDEBUG"] + san + ["-c", "-o", o_real] + incs + [os.path.join(repo, "acquire-core-libs/src/acquire-device-hal/device/hal/device.manager.cpp")])
    sh(["g++"] + san + ["-o", real] + objs + [o_real])
    o_model, o_shim = os.path.join(outdir, "dm_model.o"), os.path.join(outdir, "dm_shim.o")
    sh(["gcc", "-std=gnu11", "-O0", "-w", "-c", "-o", o_model, gen_c])
    sh(["gcc", "-std=gnu11", "-O0", "-w", "-c", "-o", o_shim, shim])
    sh(["gcc", "-o", model] + objs + [o_model, o_shim])
    ra = subprocess.run([real, "1"], capture_output=True, text=True, timeout=60)
    rb = subprocess.run([model, "1"], capture_output=True, text=True, timeout=60)
    if ra.returncode != 0 or rb.returncode != 0:
        raise RuntimeError("differential validation (device manager): a side crashed on the defined-behaviour scenarios: real rc=%d model rc=%d %s" % (ra.returncode, rb.returncode, (ra.stderr + rb.stderr)[-300:]))
    la, lb = ra.stdout.splitlines(), rb.stdout.splitlines()
    if la != lb:
        diff = [(x, y) for x, y in zip(la, lb) if x != y][:3]
        raise RuntimeError("differential validation (device manager): the C translation answers differently from the g++ build: %s (lines %d vs %d)" % (diff, len(la), len(lb)))
    # phase 2: out-of-range index / driver id.  Compared only when the sanitized real build gets
    # through them cleanly; if the unit itself misbehaves there, that is for the solver to report
    ra2 = subprocess.run([real, "2"], capture_output=True, text=True, timeout=60)
    if ra2.returncode == 0:
        rb2 = subprocess.run([model, "2"], capture_output=True, text=True, timeout=60)
        if rb2.returncode != 0 or ra2.stdout != rb2.stdout:
            raise RuntimeError("differential validation (device manager): out-of-range scenarios differ between the g++ build (clean) and the C translation (rc=%d)" % rb2.returncode)
        la = la + ra2.stdout.splitlines()
    for f in os.listdir(outdir):
        if f.endswith(".bin") or f.endswith(".o"):
            os.remove(os.path.join(outdir, f))
    return len(la)
