/* native models of the C++ runtime pieces the C translation of device.manager.cpp calls, for the
 * differential validation only (CBMC uses the models in harness/hal/devman.c).  The regex engine is
 * POSIX regcomp/regexec (extended, case-insensitive, anchored): it agrees with ECMAScript on the
 * scenario patterns. */
#include <stdint.h>
#include <stdlib.h>
#include <string.h>
#include <regex.h>
#include <stdio.h>
extern char* verif_exn;
struct exn { char** vt; const char* msg; };
static char* exn_what(char* e) { return (char*)((struct exn*)e)->msg; }
static char* exn_vtable[4] = { 0, 0, (char*)exn_what, 0 };
static struct exn lib_exn;
static void lib_throw(const char* w) { lib_exn.vt = exn_vtable; lib_exn.msg = w; verif_exn = (char*)&lib_exn; }
char g__ZTISt9exception[8], g__ZTISt13runtime_error[8], g___libc_single_threaded[1] = { 1 };
char* __cxa_allocate_exception(uint64_t n) { return malloc(n < 16 ? 16 : n); }
void __cxa_free_exception(char* p) { free(p); }
char* __cxa_begin_catch(char* p) { return p; }
void __cxa_end_catch(void) {}
void _ZNSt13runtime_errorC1EPKc(char* self, char* msg) { ((struct exn*)self)->vt = exn_vtable; ((struct exn*)self)->msg = "runtime_error"; }
struct sstr_view { char* p; uint64_t size; };
void _ZNSt13runtime_errorC1ERKNSt7__cxx1112basic_stringIcSt11char_traitsIcESaIcEEE(char* self, char* str) { struct sstr_view* v = (struct sstr_view*)str; char* c = malloc(v->size + 1); memcpy(c, v->p, v->size); c[v->size] = 0; ((struct exn*)self)->vt = exn_vtable; ((struct exn*)self)->msg = c; }
void _ZNSt13runtime_errorD1Ev(char* self) {}
void _ZSt24__throw_out_of_range_fmtPKcz(char* fmt, ...) { lib_throw("out_of_range"); }
void _ZSt20__throw_length_errorPKc(char* m) { lib_throw("length_error"); }
void _ZSt19__throw_logic_errorPKc(char* m) { lib_throw("logic_error"); }
void _ZSt17__throw_bad_allocv(void) { lib_throw("bad_alloc"); }
void _ZSt28__throw_bad_array_new_lengthv(void) { lib_throw("bad_array_new_length"); }
void __clang_call_terminate(char* e) { fprintf(stderr, "terminate\n"); abort(); }
void __CPROVER_assume(int c) { if (!c) { fprintf(stderr, "unreachable reached\n"); abort(); } }
char* _Znwm(uint64_t n) { return malloc(n ? n : 1); }
void _ZdlPv(char* p) { free(p); }
void _ZNSt6localeC1Ev(char* self) {}
void _ZNSt6localeD1Ev(char* self) {}
/* regex object: 32 bytes; the model keeps a pointer to its two compiled forms (anchored for
 * regex_match, plain for regex_search) in the shared_ptr's pointer slot (+16) and leaves the
 * control block (+24) NULL so the translated release code does nothing */
struct two { regex_t anchored, plain, prefix; }; /* prefix: regex_search with match_continuous (1 << 6 in libstdc++) */
void
_ZNSt7__cxx1111basic_regexIcNS_12regex_traitsIcEEE10_M_compileEPKcS5_NSt15regex_constants18syntax_option_typeE(char* self, char* first, char* last, uint32_t flags)
{
    size_t n = (size_t)(last - first);
    char* buf = malloc(n + 8);
    int cf = REG_EXTENDED | REG_NOSUB | ((flags & 1) ? REG_ICASE : 0);
    struct two* re = malloc(sizeof *re);
    memcpy(buf, first, n); buf[n] = 0;
    if (regcomp(&re->plain, buf, cf) != 0) { free(buf); free(re); lib_throw("regex_error"); return; }
    buf[0] = '^'; buf[1] = '('; memcpy(buf + 2, first, n); memcpy(buf + 2 + n, ")$", 3);
    if (regcomp(&re->anchored, buf, cf) != 0) { regfree(&re->plain); free(buf); free(re); lib_throw("regex_error"); return; }
    memcpy(buf + 2 + n, ")", 2);
    if (regcomp(&re->prefix, buf, cf) != 0) { regfree(&re->plain); regfree(&re->anchored); free(buf); free(re); lib_throw("regex_error"); return; }
    free(buf);
    *(struct two**)(self + 16) = re;
}
void _ZNSt7__cxx1111basic_regexIcNS_12regex_traitsIcEEED2Ev(char* self) { struct two* re = *(struct two**)(self + 16); if (re) { regfree(&re->anchored); regfree(&re->plain); regfree(&re->prefix); free(re); } }
void _ZNSt12__shared_ptrIKNSt8__detail4_NFAINSt7__cxx1112regex_traitsIcEEEELN9__gnu_cxx12_Lock_policyE2EED2Ev(char* self) {}
void _ZNSt16_Sp_counted_baseILN9__gnu_cxx12_Lock_policyE2EE24_M_release_last_use_coldEv(char* self) {}
uint8_t
_ZNSt8__detail17__regex_algo_implIPKcSaINSt7__cxx119sub_matchIS2_EEEcNS3_12regex_traitsIcEEEEbT_S9_RNS3_13match_resultsIS9_T0_EERKNS3_11basic_regexIT1_T2_EENSt15regex_constants15match_flag_typeENS_20_RegexExecutorPolicyEb(
  char* s, char* e, char* results, char* re_, uint32_t flags, uint32_t policy, uint8_t match_mode)
{
    struct two* re = *(struct two**)(re_ + 16);
    return regexec(match_mode ? &re->anchored : (flags & 64u) ? &re->prefix : &re->plain, s, 0, 0, 0) == 0;
}
