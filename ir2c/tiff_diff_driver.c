/* differential driver: the same scenarios are pushed through the g++ build of tiff.cpp and
 * through the gcc build of the C generated from its LLVM IR; the produced files are compared */
#include "device/kit/storage.h"
#include "device/props/storage.h"
#include "device/props/components.h"
#include <stdio.h>
#include <stdlib.h>
#include <string.h>
struct Storage* tiff_init(void);
int
main(int argc, char** argv)
{
    int scen = argc > 2 ? atoi(argv[2]) : 0;
    struct Storage* s = tiff_init();
    struct StorageProperties p;
    struct PixelScale ps = { 1 + scen, 2 };
    const char* meta = (scen & 1) ? "{\"hello\":\"world\"}" : "";
    char uri[512];
    snprintf(uri, sizeof uri, "%s%s", (scen & 2) ? "file://" : "", argv[1]);
    storage_properties_init(&p, 0, uri, strlen(uri) + 1, meta, strlen(meta) + 1, ps, 0);
    s->state = s->set(s, &p);
    if (s->state != DeviceState_Armed) return 2;
    for (int cycle = 0; cycle < 1 + (scen == 5); ++cycle) {
        s->state = s->start(s);
        if (s->state != DeviceState_Running) return 3;
        int npk = 1 + scen % 3;
        for (int pk = 0; pk < npk; pk++) {
            size_t img[4] = { 5 + scen, 16, 33, 1 };
            int nf = 1 + (scen + pk) % 4;
            size_t tot = 0;
            unsigned char* buf = calloc(1, 4096);
            for (int f = 0; f < nf; f++) {
                struct VideoFrame* v = (struct VideoFrame*)(buf + tot);
                size_t n = sizeof(*v) + img[f] * (f == 1 ? 2 : 1);
                n = (n + 7) / 8 * 8;
                v->bytes_of_frame = n;
                v->frame_id = pk * 4 + f;
                v->hardware_frame_id = 100 + pk * 4 + f;
                v->timestamps.hardware = 7 + f;
                v->timestamps.acq_thread = 9 + pk;
                v->shape.dims.width = img[f];
                v->shape.dims.height = 1;
                v->shape.type = f == 1 ? SampleType_u16 : (f == 2 ? SampleType_i8 : SampleType_u8);
                for (size_t k = 0; k < n - sizeof(*v); k++) v->data[k] = (unsigned char)(k + f + pk + scen);
                tot += n;
            }
            size_t nb = tot;
            s->state = s->append(s, (struct VideoFrame*)buf, &nb);
            free(buf);
        }
        s->state = s->stop(s);
    }
    s->destroy(s);
    storage_properties_destroy(&p);
    return 0;
}
