#include <stdlib.h>
#include <stdio.h>
void* _Znwm(unsigned long n){ return malloc(n); }
void _ZdlPv(void* p){ free(p); }
void __CPROVER_assume(int c){ if(!c){ fprintf(stderr,"assume(0) reached\n"); exit(77);} }
void* __cxa_begin_catch(void* p){ abort(); }
void _ZSt9terminatev(void){ abort(); }
void _ZSt17__throw_bad_allocv(void){ abort(); }
void _ZSt20__throw_length_errorPKc(const char* s){ abort(); }
