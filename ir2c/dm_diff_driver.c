/* scenarios of the differential validation: the same calls go to the g++ build of
 * device.manager.cpp and to the gcc build of its C translation; the printed answers must agree */
#include <stdio.h>
#include <string.h>
#include <stdint.h>
#include "device/hal/device.manager.h"
int dm_lib_index(const struct Driver* d);
int dm_lib_shutdowns(int k);
static void
show(const char* what, enum DeviceStatusCode rc, const struct DeviceIdentifier* id)
{
    if (rc == Device_Ok) printf("%s -> ok (%d,%d) kind=%d \"%s\"\n", what, id->driver_id, id->device_id, (int)id->kind, id->name);
    else printf("%s -> err\n", what);
}
int
main(int argc, char** argv)
{
    int phase = argc > 1 ? argv[1][0] - '0' : 1; /* 1: defined-behaviour scenarios; 2: out-of-range indices (error paths) */
    struct DeviceManager dm = { 0 };
    printf("init %d\n", (int)device_manager_init(&dm, 0));
    uint32_t n = device_manager_count(&dm);
    printf("count %u\n", n);
    for (uint32_t i = 0; i < (phase == 2 ? n + 2 : n); ++i) {
        struct DeviceIdentifier id; memset(&id, 0, sizeof id);
        enum DeviceStatusCode rc = device_manager_get(&id, &dm, i == n + 1 ? 0xfffffff0u : i);
        char w[32]; snprintf(w, sizeof w, "get %u", i); show(w, rc, &id);
        if (rc == Device_Ok) printf("  driver lib %d\n", dm_lib_index(device_manager_get_driver(&dm, &id)));
    }
    static const struct { const char* p; size_t n; } pats[] = {
        { "trash", 5 }, { "TRASH", 5 }, { "tra", 3 }, { "rash", 4 }, { ".*random.*", 10 }, { "simulated: .*", 13 }, { "tiff", 4 }, { "tiff-json", 9 }, { "tiff.*", 6 },
        { "", 0 }, { 0, 0 }, { "raw\0\0", 5 }, { "raw\0x", 5 }, { "\0\0", 2 }, { "(", 1 }, { "[a", 2 }, { "zzz", 3 }, { "x", 1 }, { "trash|raw", 9 }, { "another random camera", 21 } };
    for (unsigned k = 1; k <= 3; ++k)
        for (unsigned i = 0; i < sizeof pats / sizeof pats[0]; ++i) {
            struct DeviceIdentifier id; memset(&id, 0, sizeof id);
            enum DeviceStatusCode rc = device_manager_select(&dm, (enum DeviceKind)k, pats[i].p, pats[i].n, &id);
            char w[64]; snprintf(w, sizeof w, "select k=%u #%u", k, i); show(w, rc, &id);
        }
    for (unsigned k = 0; k <= 6; ++k) {
        struct DeviceIdentifier id; memset(&id, 0, sizeof id);
        char w[64];
        snprintf(w, sizeof w, "first k=%u", k); show(w, device_manager_select_first(&dm, (enum DeviceKind)k, &id), &id);
        snprintf(w, sizeof w, "default k=%u", k); show(w, device_manager_select_default(&dm, (enum DeviceKind)k, &id), &id);
    }
    {
        struct DeviceIdentifier id; memset(&id, 0, sizeof id);
        show("null self", device_manager_select(0, DeviceKind_Camera, "x", 1, &id), &id);
        show("null name", device_manager_select(&dm, DeviceKind_Camera, 0, 3, &id), &id);
        struct DeviceManager empty = { 0 };
        show("null impl", device_manager_select(&empty, DeviceKind_Camera, "x", 1, &id), &id);
        show("get null impl", device_manager_get(&id, &empty, 0), &id);
        printf("count null %u\n", device_manager_count(&empty));
        if (phase == 2) {
            id.driver_id = 200;
            printf("driver oob %d\n", dm_lib_index(device_manager_get_driver(&dm, &id)));
        }
        printf("driver null id %d\n", dm_lib_index(device_manager_get_driver(&dm, 0)));
    }
    printf("destroy %d impl=%d\n", (int)device_manager_destroy(&dm), dm.impl != 0);
    printf("shutdowns %d %d\n", dm_lib_shutdowns(0), dm_lib_shutdowns(2));
    printf("destroy again %d\n", (int)device_manager_destroy(&dm));
    return 0;
}
