#!/bin/sh
# tiff-json leaves data.tif unterminated and open after stop (fixed by the "fix: tiff-json records the state..." commit).
# usage: demo.sh [repo]   (exit 0 = file valid and closed, 1 = defect present)
R=${1:-/repo}; D=$(mktemp -d); cd $D || exit 2
I="-I$R/acquire-core-libs/src/acquire-core-platform/linux -I$R/acquire-core-libs/src/acquire-core-logger -I$R/acquire-core-libs/src/acquire-device-kit -I$R/acquire-core-libs/src/acquire-device-properties"
for c in acquire-core-libs/src/acquire-core-platform/linux/platform.c acquire-core-libs/src/acquire-device-properties/device/props/storage.c acquire-core-libs/src/acquire-device-properties/device/props/components.c acquire-core-libs/src/acquire-device-properties/device/props/device.c acquire-core-libs/src/acquire-core-logger/logger.c; do gcc -c -DNO_UNIT_TESTS $I $R/$c -o $(basename $c).o || exit 2; done
g++ -std=gnu++20 -DNO_UNIT_TESTS $I -c $R/acquire-driver-common/src/storage/tiff.cpp -o tiff.o || exit 2
g++ -std=gnu++20 -DNO_UNIT_TESTS $I -c $R/acquire-driver-common/src/storage/side-by-side-tiff.cpp -o sbs.o || exit 2
sed "s|/tmp/sbsdemo|$D|g" $(dirname $(readlink -f $0))/demo.cpp > demo.cpp
g++ -std=gnu++20 $I demo.cpp *.o -o demo -lpthread 2>/dev/null || exit 2
./demo; rc=$?; cd /; rm -rf $D; exit $rc
