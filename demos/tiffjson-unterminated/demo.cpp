// tiff-json (side-by-side tiff) device driven directly, as basics.driver.c hands it out:
// is data.tif a terminated BigTIFF directory chain after stop, and is its descriptor closed?
#include "device/kit/storage.h"
#include "device/props/storage.h"
#include <cstdio>
#include <cstdlib>
#include <cstring>
#include <cstdint>
#include <dirent.h>
#include <vector>
extern "C" struct Storage* side_by_side_tiff_init();
extern "C" struct Storage* tiff_init();
static int open_fds() { int n = 0; DIR* d = opendir("/proc/self/fd"); while (readdir(d)) ++n; closedir(d); return n; }
static int check_chain(const char* path, int expect) {
    FILE* f = fopen(path, "rb"); if (!f) { printf("cannot open %s\n", path); return 1; }
    fseek(f, 0, SEEK_END); long len = ftell(f); fseek(f, 0, SEEK_SET);
    std::vector<uint8_t> b(len); fread(b.data(), 1, len, f); fclose(f);
    uint64_t off; memcpy(&off, &b[8], 8);
    int n = 0;
    while (off) {
        if (off + 8 > (uint64_t)len) { printf("%s: directory %d at offset %llu is outside the file (%ld bytes): chain not terminated\n", path, n, (unsigned long long)off, len); return 1; }
        uint64_t cnt; memcpy(&cnt, &b[off], 8);
        uint64_t nextpos = off + 8 + cnt * 20;
        if (nextpos + 8 > (uint64_t)len) { printf("%s: directory %d runs past the end of the file\n", path, n); return 1; }
        memcpy(&off, &b[nextpos], 8); ++n;
        if (n > 100) { printf("%s: chain loops\n", path); return 1; }
    }
    printf("%s: %d directories, chain terminated\n", path, n);
    return n != expect;
}
static int run(struct Storage* s, const char* uri, const char* tif) {
    struct StorageProperties p = {};
    storage_properties_init(&p, 0, uri, strlen(uri) + 1, "{}", 3, { 1, 1 }, 0);
    int bad = 0;
    int fds0 = open_fds();
    if (s->set(s, &p) != DeviceState_Armed) { puts("set failed"); return 1; }
    if (s->start(s) != DeviceState_Running) { puts("start failed"); return 1; }
    size_t nb = sizeof(struct VideoFrame) + 16;
    struct VideoFrame* f = (struct VideoFrame*)calloc(1, nb);
    f->bytes_of_frame = nb; f->shape.dims = { 1, 4, 4, 1 }; f->shape.strides = { 1, 1, 4, 16 }; f->shape.type = SampleType_u8;
    for (int i = 0; i < 2; ++i) { f->frame_id = i; size_t n = nb; if (s->append(s, f, &n) != DeviceState_Running) { puts("append failed"); bad = 1; } }
    if (s->stop(s) != DeviceState_Armed) { puts("stop did not report Armed"); bad = 1; }
    int fds1 = open_fds();
    if (fds1 != fds0) { printf("%s: %d descriptor(s) still open after stop\n", uri, fds1 - fds0); bad = 1; }
    bad |= check_chain(tif, 2);
    free(f);
    return bad;
}
int main() {
    system("rm -rf /tmp/sbsdemo/out /tmp/sbsdemo/plain.tif");
    int bad = 0;
    // reference: the plain tiff device driven the way the HAL does (state kept by the caller)
    struct Storage* t = tiff_init();
    {
        struct StorageProperties p = {}; const char* uri = "/tmp/sbsdemo/plain.tif";
        storage_properties_init(&p, 0, uri, strlen(uri) + 1, "{}", 3, { 1, 1 }, 0);
        t->state = t->set(t, &p); t->state = t->start(t);
        size_t nb = sizeof(struct VideoFrame) + 16; struct VideoFrame* f = (struct VideoFrame*)calloc(1, nb);
        f->bytes_of_frame = nb; f->shape.dims = { 1, 4, 4, 1 }; f->shape.strides = { 1, 1, 4, 16 }; f->shape.type = SampleType_u8;
        for (int i = 0; i < 2; ++i) { f->frame_id = i; size_t n = nb; t->state = t->append(t, f, &n); }
        t->state = t->stop(t);
        bad |= check_chain(uri, 2);
    }
    struct Storage* s = side_by_side_tiff_init();
    bad |= run(s, "/tmp/sbsdemo/out", "/tmp/sbsdemo/out/data.tif");
    puts(bad ? "FAIL" : "PASS");
    return bad;
}
