// Simulated camera with binning 2 and a full-resolution image of 1 MiB: the buffers come from realloc
// (16-byte alignment; page+16 for mmap'ed blocks) while the AVX2 bin2 dereferences __m256i* (32-byte
// aligned moves).  Expected: three frames of 512x512.  Observed on the unchanged tree: SIGSEGV.
#include "device/kit/camera.h"
#include "device/props/camera.h"
#include "simulated.camera.h"
#include "identifiers.h"
#include <stdio.h>
#include <stdlib.h>
#include <string.h>
#include <stdint.h>
static void rep(int e, const char* f, int l, const char* fn, const char* m) {}
int main(void) {
    struct Camera* c = simcam_make_camera(BasicDevice_Camera_Empty);
    if (!c) return 2;
    struct CameraProperties p; memset(&p, 0, sizeof p);
    p.binning = 2; p.shape.x = 512; p.shape.y = 512; p.pixel_type = SampleType_u8; p.exposure_time_us = 1000;
    if (c->set(c, &p) != Device_Ok) { puts("set failed"); return 2; }
    struct ImageShape s; c->get_shape(c, &s);
    printf("reported %ux%u\n", s.dims.width, s.dims.height);
    if (c->start(c) != Device_Ok) { puts("start failed"); return 2; }
    size_t nb = (size_t)s.dims.width * s.dims.height; uint8_t* buf = malloc(nb);
    for (int i = 0; i < 3; ++i) { size_t n = nb; struct ImageInfo info; if (c->get_frame(c, buf, &n, &info) != Device_Ok) { puts("get_frame failed"); return 1; } printf("frame %d: %zu bytes\n", i, n); }
    c->stop(c);
    puts("PASS");
    return 0;
}
