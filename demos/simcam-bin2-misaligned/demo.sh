#!/bin/sh
# usage: demo.sh [repo]  — exit 0 = three frames delivered; a crash (139) = defect present
HERE=$(dirname $(readlink -f $0)); R=${1:-/repo}; D=$(mktemp -d); cd $D || exit 2
S=$R/acquire-driver-common/src/simcams
I="-I$R/acquire-core-libs/src/acquire-core-logger -I$R/acquire-core-libs/src/acquire-core-platform/linux -I$R/acquire-core-libs/src/acquire-device-kit -I$R/acquire-core-libs/src/acquire-device-properties -I$S/3rdParty/pcg-c-basic-0.9 -I$S -I$R/acquire-driver-common/src"
F="-O2 -g -DNDEBUG -mavx2 -DNO_UNIT_TESTS"
gcc $F -std=gnu11 $I -c $S/simulated.camera.c -o sc.o || exit 2
gcc $F -std=gnu11 $I -c $S/3rdParty/pcg-c-basic-0.9/pcg_basic.c -o pcg.o || exit 2
g++ $F -std=c++20 $I -c $S/popcount.cpp -o pop.o || exit 2
g++ $F -std=c++20 $I -c $S/imfill.pattern.cpp -o pat.o || exit 2
for c in acquire-core-libs/src/acquire-core-platform/linux/platform.c acquire-core-libs/src/acquire-core-logger/logger.c acquire-core-libs/src/acquire-device-properties/device/props/components.c acquire-core-libs/src/acquire-device-properties/device/props/device.c; do gcc $F -std=gnu11 $I -c $R/$c -o $(basename $c).o || exit 2; done
gcc $F -std=gnu11 $I -c $HERE/demo.c -o demo.o || exit 2
g++ -o demo *.o -lpthread -lm || exit 2
./demo; rc=$?; cd /; rm -rf $D; exit $rc
