/* native replay runtime: ND() values come from the CBMC trace, in draw order */
#include <stdint.h>
#include <stdio.h>
#include <stdlib.h>
#include <string.h>
static FILE* f_;
uint64_t
verif_replay_next(const char* ty)
{
    if (!f_) {
        const char* p = getenv("VERIF_REPLAY_INPUTS");
        if (!p || !(f_ = fopen(p, "r"))) {
            fprintf(stderr, "REPLAY: no inputs file\n");
            exit(78);
        }
    }
    char line[256];
    while (fgets(line, sizeof line, f_)) {
        if (line[0] == '#' || line[0] == '\n')
            continue;
        /* "<binary-digits> <comment>" : two's complement bit string */
        uint64_t v = 0;
        int n = 0;
        for (char* c = line; *c == '0' || *c == '1'; ++c, ++n)
            v = (v << 1) | (uint64_t)(*c - '0');
        if (n == 0)
            continue;
        if (n < 64 && n > 1 && (strstr(ty, "int") == ty || !strcmp(ty, "int64_t") || !strcmp(ty, "int32_t")) &&
            ((v >> (n - 1)) & 1)) /* sign-extend signed types */
            v |= ~0ULL << n;
        return v;
    }
    /* trace exhausted: the model path ended earlier; further draws are arbitrary */
    return 0;
}

/* generated C (ir2c) marks unreachable / unwind-only paths with __CPROVER_assume(0) */
void
__CPROVER_assume(int c)
{
    if (!c) {
        fprintf(stderr, "REPLAY: assume(0) reached in translated code (path outside the model)\n");
        exit(77);
    }
}
