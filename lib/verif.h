/* Common header for every harness under /verif/harness.
 *
 * Two build modes of the SAME harness source:
 *   MODEL  (goto-cc, __CPROVER__ defined): ND(T) is a fresh symbolic value, VASSUME/VASSERT
 *          are solver assumptions / obligations.
 *   REPLAY (gcc -DVERIF_REPLAY, native, ASan+UBSan): ND(T) returns the next value of the
 *          counterexample trace (file named by $VERIF_REPLAY_INPUTS), a false VASSUME exits 77
 *          ("trace does not follow the model path"), a false VASSERT prints and aborts.
 * Every nondeterministic draw goes through ND() so that the order of draws in the CBMC trace
 * (assignments to the local `nd_val_`) is the order in which the native run consumes them.
 */
#ifndef VERIF_H
#define VERIF_H
#include <stdint.h>
#include <stddef.h>

typedef unsigned char u8_t;
typedef _Bool bool_t;

#ifdef VERIF_REPLAY
#include <stdio.h>
#include <stdlib.h>
uint64_t verif_replay_next(const char* ty);
#define ND(T) ((T)verif_replay_next(#T))
#define VASSUME(c)                                                                 \
    do {                                                                           \
        if (!(c)) {                                                                \
            fprintf(stderr, "REPLAY: assumption false: %s (%s:%d)\n", #c,          \
                    __FILE__, __LINE__);                                           \
            exit(77);                                                              \
        }                                                                          \
    } while (0)
#define VASSERT(c, msg)                                                            \
    do {                                                                           \
        if (!(c)) {                                                                \
            fprintf(stderr, "REPLAY: ASSERTION VIOLATED: %s [%s] (%s:%d)\n", msg,  \
                    #c, __FILE__, __LINE__);                                       \
            fflush(stderr);                                                        \
            abort();                                                               \
        }                                                                          \
    } while (0)
#define COVER(c) ((void)0)
#define VERIF_MODEL 0
/* address range of n bytes that is never dereferenced by the code under test (up to 2^40) */
#include <sys/mman.h>
#define VERIF_ALLOC_NOACCESS(n) mmap(0, (n) ? (n) : 1, PROT_NONE, MAP_PRIVATE | MAP_ANONYMOUS | MAP_NORESERVE, -1, 0)
#else
uint64_t nondet_uint64_t(void);
uint32_t nondet_uint32_t(void);
uint16_t nondet_uint16_t(void);
uint8_t nondet_uint8_t(void);
int64_t nondet_int64_t(void);
int8_t nondet_int8_t(void);
int16_t nondet_int16_t(void);
double nondet_double(void);
int32_t nondet_int32_t(void);
int nondet_int(void);
unsigned nondet_unsigned(void);
size_t nondet_size_t(void);
u8_t nondet_u8_t(void);
bool_t nondet_bool_t(void);
float nondet_float(void);
#define ND(T)                                                                      \
    ({                                                                             \
        T nd_val_ = nondet_##T();                                                  \
        nd_val_;                                                                   \
    })
#define VASSUME(c) __CPROVER_assume(c)
#define VASSERT(c, msg) __CPROVER_assert((c), msg)
#ifdef VERIF_COVER
#define COVER(c) __CPROVER_cover(c)
#else
#define COVER(c) ((void)0)
#endif
#define VERIF_MODEL 1
#include <stdlib.h>
#define VERIF_ALLOC_NOACCESS(n) malloc(n)
#endif

/* end-of-scenario reachability witness: every harness ends with WITNESS_END() */
#define WITNESS_END() COVER(1)

#endif
