/* Force-included (-include) into repo translation units for CBMC and for the native replay.
 *
 * memset(p, 0, k*sizeof(*p)) and memcpy(d, s, sizeof(*d)) on STRUCT-typed pointers are rewritten
 * into typed zero-assignment / struct assignment.  Reason: CBMC implements memset/memcpy as
 * byte-array operations; pointers stored in a struct that was written that way are read back
 * through byte_extract, are no longer resolved by symex and every later dereference fans out
 * over all objects (measured: 17 s instead of 0.3 s for one storage_properties_init).
 * Semantics preserved except that padding bytes are not written.  Byte-typed (char/void)
 * destinations use plain byte loops (lib/mem_loops.c) instead of CBMC's array primitives, which
 * fan out over every candidate object when the size is symbolic (30 s -> 0.9 s for three
 * set_uri calls); the loops are bounded by --unwind with unwinding assertions.
 */
#ifndef VERIF_TYPED_MEM_H
#define VERIF_TYPED_MEM_H
#include <string.h>
#include <stddef.h>
void* verif_memset_b(void*,int,size_t); void* verif_memcpy_b(void*,const void*,size_t);
#define VERIF_IS_BYTEPTR(p) (sizeof(*(p)) == 1)
#define memset(p, c, n)                                                                           \
    __builtin_choose_expr(VERIF_IS_BYTEPTR(p), verif_memset_b((void*)(p), (c), (n)), ({                  \
                              __typeof__(&(p)[0]) vtm_p_ = (p);                                         \
                              size_t vtm_k_ = (n) / sizeof(*vtm_p_);                              \
                              if ((c) == 0 && vtm_k_ * sizeof(*vtm_p_) == (n)) {                   \
                                  for (size_t vtm_i_ = 0; vtm_i_ < vtm_k_; ++vtm_i_)              \
                                      vtm_p_[vtm_i_] = (__typeof__(*vtm_p_)){ 0 };                \
                              } else                                                              \
                                  (memset)((void*)vtm_p_, (c), (n));                              \
                              (void*)vtm_p_;                                                      \
                          }))
#define memcpy(d, s, n)                                                                           \
    __builtin_choose_expr(VERIF_IS_BYTEPTR(d) || !__builtin_types_compatible_p(__typeof__(*(d)), __typeof__(*(s))), \
                          verif_memcpy_b((void*)(d), (const void*)(s), (n)), ({                         \
                              __typeof__(&(d)[0]) vtm_d_ = (d);                                         \
                              const void* vtm_s_ = (s);                                           \
                              if ((n) == sizeof(*vtm_d_))                                         \
                                  *vtm_d_ = *(const __typeof__(*vtm_d_)*)vtm_s_;                  \
                              else                                                                \
                                  (memcpy)((void*)vtm_d_, vtm_s_, (n));                           \
                              (void*)vtm_d_;                                                      \
                          }))
#endif
