#include <stddef.h>
void* verif_memset_b(void* p, int c, size_t n){ unsigned char* q=p; for(size_t i=0;i<n;++i) q[i]=(unsigned char)c; return p; }
void* verif_memcpy_b(void* d, const void* s, size_t n){ unsigned char* q=d; const unsigned char* r=s; for(size_t i=0;i<n;++i) q[i]=r[i]; return d; }
