/* Allocation stubs for repo sources compiled with -Dmalloc=verif_malloc -Drealloc=verif_realloc.
 * Small sizes are case-split so that every object has a CONCRETE size (objects of symbolic size
 * make CBMC's array encoding explode); larger sizes must be concrete at the call site.
 * realloc = malloc + free without content copy (callers overwrite the buffer; stated assumption).
 * malloc never fails (allocation failure is outside every property here). */
#include "verif.h"
#include <stddef.h>
#undef malloc
#undef realloc
void* malloc(size_t);
void free(void*);
void*
verif_malloc(size_t n)
{
    void* q;
    switch (n) {
#define K(k) case k: q = malloc(k); break;
        K(0) K(1) K(2) K(3) K(4) K(5) K(6) K(7) K(8) K(9) K(10) K(11) K(12) K(13) K(14) K(15) K(16)
#undef K
        default: q = malloc(n); break;
    }
    VASSUME(q != 0);
    return q;
}
void*
verif_realloc(void* p, size_t n)
{
    void* q = verif_malloc(n);
    if (p) free(p);
    return q;
}
