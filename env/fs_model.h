/* File-system model under the REAL linux/platform.c file functions (file_create, file_write,
 * file_close, file_exists, file_is_writable run as real code on top of these syscall stubs).
 *  - two files, named by the first path character: 'a' -> 0, 'b' -> 1 (other paths are outside)
 *  - open(): the lowest descriptor number in 3..FD_MAX that is not currently open, as POSIX
 *    specifies (so a closed number is reused by the next open); may fail when faults are enabled (returns -1, errno != 0)
 *  - pwrite(): returns any value in [-1, n] (short writes; -1 sets errno != 0); the harness
 *    observes every accepted write through verif_fs_pwrite_hook (and with -DFS_STORE the bytes are
 *    also stored in a bounded per-file image); persistent/one-shot failure by call index
 *    when faults are enabled
 *  - every pwrite/close/flock on a descriptor that is not currently open-and-owned is recorded
 *    (fs_bad_fd_ops), as is a second close
 */
#ifndef FS_MODEL_H
#define FS_MODEL_H
#include <stddef.h>
#include <stdint.h>
#ifndef FS_FMAX
#define FS_FMAX 12 /* bytes per file image */
#endif
#define FS_NFILES 2
#define FS_FD_MIN 3
#define FS_FD_MAX 6
struct fs_file { int exists; size_t len; uint8_t data[FS_FMAX]; };
extern struct fs_file fs_files[FS_NFILES];
extern int fs_fd_file[FS_FD_MAX + 1];   /* -1 closed, else file index */
extern int fs_bad_fd_ops;               /* operations on descriptors not owned/open */
extern int fs_opens, fs_closes, fs_pwrites, fs_short_writes, fs_write_errors;
extern int fs_short_writes_max;
extern int fs_fail_errno;
extern int fs_faults_enabled;           /* harness: allow open/pwrite failures */
extern int fs_fail_pwrite_from;         /* persistent failure from this pwrite index (-1: none) */
extern int fs_fail_pwrite_at;           /* one-shot failure at this pwrite index (-1: none) */
extern int fs_fail_open_at;             /* open call index that fails (-1: none) */
extern int fs_fail_flock_at;            /* flock call index that fails (-1: none) */
extern int fs_short_writes_enabled;
void fs_reset(void);
/* harness-provided: called for every pwrite on an owned descriptor that is not failed by fault
 * injection; r = number of bytes the OS accepts (<= n) */
void verif_fs_pwrite_hook(int fd, int file, const uint8_t* buf, size_t n, uint64_t off, size_t r);
int fs_open_count(void);
#endif
