/* logger: empty body (formatting is never the subject of a property) */
#include "logger.h"
void
logger_set_reporter(acquire_reporter_t reporter)
{
    (void)reporter;
}
void
aq_logger(int is_error, const char* file, int line, const char* function, const char* fmt, ...)
{
    (void)is_error; (void)file; (void)line; (void)function; (void)fmt;
}
