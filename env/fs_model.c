#include "verif.h"
#include "fs_model.h"
#include <errno.h>
#include <sys/types.h>

struct fs_file fs_files[FS_NFILES];
int fs_fd_file[FS_FD_MAX + 1];
int fs_bad_fd_ops, fs_opens, fs_closes, fs_pwrites, fs_short_writes, fs_write_errors;
int fs_faults_enabled, fs_short_writes_enabled;
int fs_fail_errno = 28; /* errno of an injected pwrite failure (ENOSPC unless the harness chooses another, e.g. EINTR) */
int fs_short_writes_max = 1 << 30; /* after this many short writes the OS takes whole requests (bounds the resume loop) */
int fs_fail_pwrite_from = -1, fs_fail_pwrite_at = -1, fs_fail_open_at = -1, fs_fail_flock_at = -1;
int fs_flocks;
static int verif_errno_;

void
fs_reset(void)
{
    for (int i = 0; i <= FS_FD_MAX; ++i) fs_fd_file[i] = -1;
    for (int i = 0; i < FS_NFILES; ++i) { fs_files[i].exists = 0; fs_files[i].len = 0; for (int k = 0; k < FS_FMAX; ++k) fs_files[i].data[k] = 0; }
    fs_bad_fd_ops = fs_opens = fs_closes = fs_pwrites = fs_short_writes = fs_write_errors = 0;
    fs_fail_pwrite_from = fs_fail_pwrite_at = fs_fail_open_at = fs_fail_flock_at = -1;
    fs_flocks = 0;
}
int
fs_open_count(void)
{
    int n = 0;
    for (int i = FS_FD_MIN; i <= FS_FD_MAX; ++i) n += fs_fd_file[i] >= 0;
    return n;
}
static int
path_file(const char* path)
{
    VASSUME(path != 0);
    char c = path[0];
    VASSUME(c == 'a' || c == 'b');
    return c == 'a' ? 0 : 1;
}
static int
owned(int fd)
{
    return fd >= FS_FD_MIN && fd <= FS_FD_MAX && fs_fd_file[fd] >= 0;
}

#ifdef VERIF_REPLAY
#define SYS(n) verif_sys_##n
#else
#define SYS(n) n
#endif
/* In the native replay the repo sources are compiled with -Dopen=verif_sys_open ... (see props) */

int* SYS(__errno_location)(void) { return &verif_errno_; }
char* SYS(strerror)(int e) { (void)e; return (char*)""; }

int
SYS(open)(const char* path, int flags, ...)
{
    (void)flags;
    int f = path_file(path);
    int idx = fs_opens++;
    if (fs_faults_enabled && idx == fs_fail_open_at) { verif_errno_ = 13; return -1; }
    /* POSIX: the lowest-numbered descriptor not currently open (so a closed number IS reused) */
    int fd = -1;
    for (int i = FS_FD_MAX; i >= FS_FD_MIN; --i)
        if (fs_fd_file[i] < 0) fd = i;
    VASSUME(fd >= 0);
    fs_fd_file[fd] = f;
    fs_files[f].exists = 1;
    return fd;
}
int
SYS(flock)(int fd, int op)
{
    (void)op;
    if (!owned(fd)) { ++fs_bad_fd_ops; verif_errno_ = 9; return -1; }
    if (fs_faults_enabled && fs_flocks++ == fs_fail_flock_at) { verif_errno_ = 11; return -1; } /* EWOULDBLOCK: locked by someone else */
    return 0;
}
int
SYS(close)(int fd)
{
    if (!owned(fd)) { ++fs_bad_fd_ops; verif_errno_ = 9; return -1; }
    fs_fd_file[fd] = -1;
    ++fs_closes;
    return 0;
}
ssize_t
SYS(pwrite)(int fd, const void* buf, size_t n, off_t off)
{
    int idx = fs_pwrites++;
    if (!owned(fd)) { ++fs_bad_fd_ops; verif_errno_ = 9; return -1; }
    if (fs_faults_enabled && (idx == fs_fail_pwrite_at || (fs_fail_pwrite_from >= 0 && idx >= fs_fail_pwrite_from))) {
        ++fs_write_errors;
        bool_t zero = ND(bool_t); /* a failing write either reports an error or writes nothing */
        if (zero) return 0;
        verif_errno_ = fs_fail_errno;
        return -1;
    }
    size_t r = n;
    if (fs_short_writes_enabled) {
        r = ND(size_t);
        VASSUME(r <= n);
        if (fs_short_writes >= fs_short_writes_max) VASSUME(r == n);
        if (r < n) ++fs_short_writes;
    }
    verif_fs_pwrite_hook(fd, fs_fd_file[fd], (const uint8_t*)buf, n, (uint64_t)off, r);
#ifdef FS_STORE
    struct fs_file* f = &fs_files[fs_fd_file[fd]];
    VASSUME(off >= 0 && (size_t)off + r <= FS_FMAX); /* bounded file image */
    const uint8_t* b = (const uint8_t*)buf;
    for (size_t i = 0; i < FS_FMAX; ++i)
        if (i < r) f->data[(size_t)off + i] = b[i];
    if ((size_t)off + r > f->len) f->len = (size_t)off + r;
#endif
    return (ssize_t)r;
}
int
SYS(access)(const char* path, int mode)
{
    (void)mode;
    int f = path_file(path);
    if (fs_files[f].exists) return 0;
    verif_errno_ = ENOENT;
    return -1;
}
int
SYS(unlink)(const char* path)
{
    int f = path_file(path);
    fs_files[f].exists = 0;
    fs_files[f].len = 0;
    return 0;
}
