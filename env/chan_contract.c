/* Contract model of the channel API, used by the thread-unit harnesses (source / sink / filter)
 * INSTEAD of the real channel.c.  It implements exactly the guarantees that the C01/C02/C03
 * checks establish for the real channel (DESIGN §3, G-CH) and nothing more:
 *   - the committed byte stream is a linear "tape"; every reader receives it in order, once;
 *   - channel_read_map returns a non-empty run of WHOLE WRITES starting at the reader's next
 *     unread byte (how many of the available writes it returns is arbitrary: the real channel
 *     splits at wrap points), and an empty slice iff the reader is drained;
 *   - channel_read_unmap(k) consumes min(k, mapped) bytes and notifies;
 *   - channel_write_map(n) returns the next tape position when the unconsumed bytes plus n fit
 *     in the capacity, blocks (sleep model of the harness) while they do not and writes are
 *     accepted, and returns NULL once writes are refused;
 *   - write_unmap commits iff writes are accepted; abort_write drops the pending region;
 *   - a reader joining sees the stream from the start of the tape kept so far (the real channel:
 *     from the start of the current lap).
 * The abstract state is kept in the fields of the real struct channel / channel_reader, which
 * the code under test never reads directly:
 *   head = committed bytes, mapped = end of the pending write, capacity = capacity in bytes,
 *   holds.pos[i] = bytes consumed by reader i+1, reader.pos = end of its mapped run.
 * Positions on the tape never wrap, so frame i of a run sits at a concrete offset.
 */
#include "verif.h"
#include "plat_seq.h"
#include "channel.h"
#include <stdlib.h>

#ifndef TAPE_BYTES
#define TAPE_BYTES 1024
#endif
#ifndef WRITE_UNIT
#define WRITE_UNIT 104 /* all writes of one run have this size (whole frames) */
#endif

int chan_blocked_waits;

/* The tapes are TYPED static objects (arrays of frame slots), not malloc'ed byte arrays: symex
 * constant-propagates values stored into struct fields but not values stored into byte-typed
 * heap objects; with a byte tape every bytes_of_frame read back is symbolic, every following
 * pointer offset is symbolic and the SAT conversion exceeds 20 GB even for one frame. */
#include "device/props/components.h"
#define TAPE_SLOTS (TAPE_BYTES / WRITE_UNIT)
/* the pixel area of a slot is typed per tape (TAPEk_PX_T, default uint8_t) so that e.g. float
 * stores through (float*)frame->data are typed member accesses, not byte_extract lvalues (those
 * make symex re-expand the whole tape object on every store) */
#ifndef TAPE0_PX_T
#define TAPE0_PX_T uint8_t
#endif
#ifndef TAPE1_PX_T
#define TAPE1_PX_T uint8_t
#endif
#ifndef TAPE2_PX_T
#define TAPE2_PX_T uint8_t
#endif
#define PXN(T) ((WRITE_UNIT - sizeof(struct VideoFrame)) / sizeof(T))
static struct { struct VideoFrame f; TAPE0_PX_T px[PXN(TAPE0_PX_T)]; } tape0[TAPE_SLOTS];
static struct { struct VideoFrame f; TAPE1_PX_T px[PXN(TAPE1_PX_T)]; } tape1[TAPE_SLOTS];
static struct { struct VideoFrame f; TAPE2_PX_T px[PXN(TAPE2_PX_T)]; } tape2[TAPE_SLOTS];
static int ntapes;
/* pointer to byte offset `off` (a multiple of WRITE_UNIT) of a tape, as a case split over the
 * slot index so that every alternative has a concrete offset */
static uint8_t*
tape_at(uint8_t* base, size_t off)
{
    size_t i = off / WRITE_UNIT;
    VASSUME(off == i * WRITE_UNIT && i <= TAPE_SLOTS);
    for (size_t k = 0; k <= TAPE_SLOTS; ++k)
        if (i == k) return base + k * WRITE_UNIT;
    return base;
}

void
channel_new(struct channel* self, size_t capacity)
{
    VASSERT(ntapes < 3, "more than 3 channels in one harness");
    uint8_t* d = ntapes == 0 ? (uint8_t*)tape0 : ntapes == 1 ? (uint8_t*)tape1 : (uint8_t*)tape2;
    ++ntapes;
    struct channel z = { 0 };
    *self = z;
    self->data = d;
    self->capacity = capacity;
    self->is_accepting_writes = 1;
    lock_init(&self->lock);
    condition_variable_init(&self->notify_space_available);
}
void
channel_release(struct channel* self)
{
    self->data = 0;
    self->holds.n = 0;
}
void
channel_accept_writes(struct channel* self, uint32_t tf)
{
    lock_acquire(&self->lock);
    self->is_accepting_writes = (unsigned char)tf;
    lock_release(&self->lock);
    condition_variable_notify_all(&self->notify_space_available);
}
static size_t
min_consumed(const struct channel* self)
{
    size_t m = self->head;
    for (unsigned i = 0; i < 8; ++i)
        if (i < self->holds.n && self->holds.pos[i] < m) m = self->holds.pos[i];
    return m;
}
void*
channel_write_map(struct channel* self, size_t nbytes)
{
    void* out = 0;
    if (nbytes >= self->capacity) return 0;
    lock_acquire(&self->lock);
    while (self->is_accepting_writes && self->holds.n && (self->head - min_consumed(self)) + nbytes > self->capacity) {
        ++chan_blocked_waits;
        condition_variable_wait(&self->notify_space_available, &self->lock);
    }
    if (self->holds.n && !self->is_accepting_writes) goto Finalize;
    VASSUME(self->head + nbytes <= TAPE_BYTES); /* bound of the harness, see TAPE_BYTES */
    VASSERT(nbytes == WRITE_UNIT, "harness bound: every write of a run is one frame of WRITE_UNIT bytes");
    out = tape_at(self->data, self->head);
    self->mapped = self->head + nbytes;
Finalize:
    lock_release(&self->lock);
    return out;
}
void
channel_write_unmap(struct channel* self)
{
    lock_acquire(&self->lock);
    if (self->is_accepting_writes && self->mapped >= self->head) self->head = self->mapped;
    lock_release(&self->lock);
}
void
channel_abort_write(struct channel* self)
{
    lock_acquire(&self->lock);
    if (self->is_accepting_writes) self->mapped = self->head;
    lock_release(&self->lock);
}
struct slice
channel_read_map(struct channel* self, struct channel_reader* reader)
{
    struct slice s = { 0, 0 };
    lock_acquire(&self->lock);
    if (reader->id == 0) {
        VASSERT(self->holds.n < 8, "more than 8 readers");
        reader->id = ++self->holds.n;
        self->holds.pos[reader->id - 1] = 0;
    }
    size_t* pos = &self->holds.pos[reader->id - 1];
    if (reader->state == ChannelState_Mapped) {
        /* protocol error path of the real channel: flag it and skip to the writer's cursor */
        reader->status = Channel_Expected_Unmapped_Reader;
        *pos = self->head;
        goto Finalize;
    }
    size_t avail = self->head - *pos;
    /* a drained reader gets an empty, non-NULL slice (as the real channel's drained path does) */
    s.beg = s.end = tape_at(self->data, *pos);
    if (avail) {
        /* any non-empty run of whole writes */
        size_t units = avail / WRITE_UNIT;
#ifdef CHAN_CHUNK
        /* chunking fixed per harness instance: at most CHAN_CHUNK writes per map */
        size_t k = units < CHAN_CHUNK ? units : CHAN_CHUNK;
        VASSUME(avail == units * WRITE_UNIT);
#else
        size_t k = ND(uint8_t);
        VASSUME(k >= 1 && k <= units && avail == units * WRITE_UNIT);
#endif
        s.beg = tape_at(self->data, *pos);
        s.end = tape_at(self->data, *pos + k * WRITE_UNIT);
        reader->pos = *pos + k * WRITE_UNIT;
        reader->state = ChannelState_Mapped;
    }
Finalize:
    lock_release(&self->lock);
    return s;
}
void
channel_read_unmap(struct channel* self, struct channel_reader* reader, size_t consumed_bytes)
{
    if (reader->state != ChannelState_Mapped) return;
    lock_acquire(&self->lock);
    size_t* pos = &self->holds.pos[reader->id - 1];
    size_t len = reader->pos - *pos;
    *pos += consumed_bytes < len ? consumed_bytes : len;
    reader->state = ChannelState_Unmapped;
    lock_release(&self->lock);
    condition_variable_notify_all(&self->notify_space_available);
}
