#include "verif.h"
#include "plat_seq.h"
#include <stdlib.h>

unsigned verif_notify_count;
unsigned verif_wait_count;
unsigned verif_lock_errors;

/* the lock state lives in the first byte of the (otherwise unused) pthread_mutex_t */
#define HELD(l) (*(unsigned char*)&(l)->inner_)

int
verif_lock_is_held(const struct lock* l)
{
    return *(const unsigned char*)&l->inner_;
}
void
lock_init(struct lock* self)
{
    HELD(self) = 0;
}
void
lock_acquire(struct lock* self)
{
    verif_on_lock_acquire(self);
    VASSERT(!HELD(self), "lock_acquire on a lock that is already held (self-deadlock)");
    HELD(self) = 1;
}
int
try_lock_acquire(struct lock* self)
{
    if (HELD(self))
        return 0;
    HELD(self) = 1;
    return 1;
}
void
lock_release(struct lock* self)
{
    VASSERT(HELD(self), "lock_release on a lock that is not held");
    HELD(self) = 0;
    verif_on_lock_release(self);
}
void
condition_variable_init(struct condition_variable* self)
{
    (void)self;
}
void
condition_variable_wait(struct condition_variable* __restrict self, struct lock* __restrict lock)
{
    VASSERT(HELD(lock), "condition_variable_wait without holding the lock");
    ++verif_wait_count;
    verif_on_wait(self, lock);
    VASSERT(HELD(lock), "wait must return with the lock held");
}
void
condition_variable_notify_all(struct condition_variable* self)
{
    ++verif_notify_count;
    verif_on_notify(self);
}
#ifdef VERIF_TYPED_RING
/* rings as TYPED static objects (arrays of frame slots): values stored into struct fields are
 * constant-propagated by symex, values stored into a malloc'ed byte array are not */
#include "device/props/components.h"
struct ring_slot { struct VideoFrame f; uint8_t px[VERIF_TYPED_RING - sizeof(struct VideoFrame)]; };
static struct ring_slot ring_store[4][VERIF_RING_SLOTS + 1];
static int ring_used;
#endif
void*
memory_alloc(size_t capacity_bytes, enum AllocatorHint hint)
{
    (void)hint;
#ifdef VERIF_TYPED_RING
    if (capacity_bytes <= sizeof(ring_store[0]) && ring_used < 4) return ring_store[ring_used++];
#endif
#ifdef VERIF_FIXED_ALLOC
    VASSUME(capacity_bytes <= VERIF_FIXED_ALLOC);
    void* p = malloc(VERIF_FIXED_ALLOC); /* fixed-size object; the capacity stays symbolic */
#else
    void* p = malloc(capacity_bytes);
#endif
    VASSUME(p != 0);
    return p;
}
void
memory_free(void* address)
{
#ifdef VERIF_TYPED_RING
    for (int i = 0; i < 4; ++i)
        if (address == (void*)ring_store[i]) return;
#endif
    free(address);
}
