/* string tables used only for log messages */
#include "device/props/device.h"
const char* device_kind_as_string(enum DeviceKind k) { (void)k; return ""; }
const char* device_state_as_string(enum DeviceState s) { (void)s; return ""; }
