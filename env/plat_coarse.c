/* Coarse thread / event / clock model (used together with plat_seq.c).
 * thread_create registers the body; the body runs TO COMPLETION either at thread_join or
 * earlier at a point chosen by the harness through verif_run_pending(thread).  Worker threads
 * therefore execute atomically somewhere between create and join (coarse schedules only; the
 * fine-grained schedules of each worker are the subject of the unit harnesses).
 * clock: clock_tic returns arbitrary non-decreasing values; sleeps return immediately. */
#include "verif.h"
#include "platform.h"

#define MAXT 6
static struct { struct thread* t; void (*proc)(void*); void* args; int pending; } tab[MAXT];
static int ntab;
int verif_threads_created, verif_threads_run;
int verif_join_log[16], verif_join_n;
int verif_create_log[16], verif_create_n;
int verif_thread_tag(const struct thread* t); /* harness: small integer naming a thread object */
void verif_on_thread_start(int tag);
void verif_on_thread_end(int tag);

void
thread_init(struct thread* self)
{
    self->inner_ = 0;
    self->is_live_ = 0;
}
uint8_t
thread_create(struct thread* self, void (*proc)(void*), void* args)
{
    int k = -1;
    for (int i = 0; i < MAXT; ++i)
        if (i < ntab && tab[i].t == self) k = i;
    if (k < 0) {
        VASSERT(ntab < MAXT, "thread table full");
        k = ntab++;
        tab[k].t = self;
    }
    VASSERT(!tab[k].pending, "C08: thread_create on a thread object whose previous body has not finished/joined (handle overwritten)");
    tab[k].proc = proc;
    tab[k].args = args;
    tab[k].pending = 1;
    self->is_live_ = 1;
    ++verif_threads_created;
    if (verif_create_n < 16) verif_create_log[verif_create_n++] = verif_thread_tag(self);
    return 1;
}
int
verif_thread_pending(const struct thread* self)
{
    for (int i = 0; i < MAXT; ++i)
        if (i < ntab && tab[i].t == self) return tab[i].pending;
    return 0;
}
void
verif_run_pending(struct thread* self)
{
    for (int i = 0; i < MAXT; ++i)
        if (i < ntab && tab[i].t == self && tab[i].pending) {
            tab[i].pending = 0;
            ++verif_threads_run;
            verif_on_thread_start(verif_thread_tag(self));
            tab[i].proc(tab[i].args);
            verif_on_thread_end(verif_thread_tag(self));
        }
}
void
thread_join(struct thread* self)
{
    if (self->is_live_) {
        if (verif_join_n < 16) verif_join_log[verif_join_n++] = verif_thread_tag(self);
        verif_run_pending(self);
        self->is_live_ = 0;
    }
}

void event_init(struct event* self) { self->state_ = 0; }
void event_destroy(struct event* self) { (void)self; }
void event_set(struct event* self) { self->state_ = 1; }
void event_notify_all(struct event* self) { self->state_ = 1; }
void
event_wait(struct event* self)
{
    /* in a coarse schedule nobody can set the event while we wait */
    VASSERT(self->state_, "coarse schedule: event_wait would block");
    self->state_ = 0;
}

static uint64_t now_;
void clock_init(struct clock* c) { c->origin = now_; }
uint64_t
clock_tic(struct clock* c)
{
    uint64_t d = ND(uint16_t);
    now_ += d;
    if (c) c->origin = now_;
    return now_;
}
int64_t clock_toc(struct clock* c) { return (int64_t)(now_ - c->origin); }
double clock_toc_ms(struct clock* c) { return (double)(now_ - c->origin) * 1e-6; }
void clock_shift_ms(struct clock* c, double ms) { (void)c; (void)ms; }
int8_t
clock_cmp(struct clock* c, uint64_t ts)
{
    (void)c; (void)ts;
    int8_t r = ND(int8_t);
    VASSUME(r >= -1 && r <= 1);
    return r;
}
int8_t clock_cmp_now(struct clock* c) { return clock_cmp(c, 0); }
void clock_sleep_ms(struct clock* c, float ms) { (void)c; (void)ms; }
