/* Sequential model of the platform sync primitives (replaces linux/platform.c's pthread wrappers).
 * lock: one "held" flag; acquire of a held lock and release of a free lock are reported.
 * condition_variable_wait: calls the harness-provided verif_on_wait(cv, lock).
 * condition_variable_notify_all: counts and calls verif_on_notify(cv).
 * Part of every claim that uses it: mutual exclusion is assumed to work (pthread mutex). */
#ifndef PLAT_SEQ_H
#define PLAT_SEQ_H
#include "platform.h"
extern unsigned verif_notify_count;
extern unsigned verif_wait_count;
extern unsigned verif_lock_errors;
int verif_lock_is_held(const struct lock* l);
void verif_on_wait(struct condition_variable* cv, struct lock* l);   /* harness */
void verif_on_notify(struct condition_variable* cv);                 /* harness */
void verif_on_lock_acquire(struct lock* l);                          /* harness: called before acquire */
void verif_on_lock_release(struct lock* l);                          /* harness: called after release */
#endif
