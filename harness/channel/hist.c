/* C01/C02 thorough: bounded symbolic HISTORIES from channel_new with a real data buffer.
 * K operations chosen symbolically from {write_map(n), commit, abort, reader j map, reader j
 * unmap(k)}; capacity symbolic in 4..CAPMAX; up to R readers that join with their first map.
 * The writer stamps every byte it writes with a global sequence number; a ghost array remembers
 * which sequence number each buffer position holds.  Checked literally:
 *   - every mapped slice is exactly the reader's next unread bytes: data[pos] carries sequence
 *     numbers next, next+1, ... (nothing lost, duplicated, reordered or altered);
 *   - a slice is empty iff the reader's next unread sequence number equals the number of bytes
 *     committed so far (empty <=> drained);
 *   - a region handed to the writer holds no byte a reader has mapped or not yet consumed
 *     (its stamps are all older than every reader's next unread number);
 *   - the induction invariant INV of the step harnesses holds in every reached state (cross-check
 *     that the symbolic pre-states of the step harnesses cover the reachable ones).
 * Blocking: an operation that would block is not part of the history (assumed away). */
#include "verif.h"
#include "plat_seq.h"
#include <stdlib.h>
#include "channel.c"
#ifndef R
#define R 2
#endif
#include "chan_model.h"
#ifndef K
#define K 6
#endif
#ifndef CAPMAX
#define CAPMAX 10
#endif

void verif_on_lock_acquire(struct lock* l) {}
void verif_on_lock_release(struct lock* l) {}
void verif_on_notify(struct condition_variable* cv) {}
void verif_on_wait(struct condition_variable* cv, struct lock* l) { VASSUME(0); }

static uint32_t stamp[VERIF_FIXED_ALLOC]; /* ghost: sequence number of the byte at each position (+1; 0 = never written) */
static uint32_t wseq;      /* sequence number of the next byte the writer will write */
static uint32_t committed; /* bytes committed so far */
static struct channel_reader rd[R];
static uint32_t nxt[R];    /* next unread sequence number of each joined reader */
static uint32_t maplen[R];
static uint8_t* wptr;
static size_t wlen;
static int wmapped;
static int wraps_seen, partials, joins_after_wrap, aborts;

int
main(void)
{
    size_t cap = ND(uint8_t);
    VASSUME(cap >= 4 && cap <= CAPMAX);
    channel_new(&ch, cap);
    for (int k = 0; k < K; ++k) {
        uint8_t op = ND(uint8_t);
        VASSUME(op < 5);
        if (op == 0 && !wmapped) {
            size_t n = ND(uint8_t);
            VASSUME(n >= 1 && n < cap);
            size_t cyc0 = ch.cycle;
            uint8_t* p = channel_write_map(&ch, n);
            VASSERT(p != 0, "write_map refused although writes are accepted");
            if (ch.cycle != cyc0) ++wraps_seen;
            size_t off = (size_t)(p - ch.data);
            VASSERT(off + n <= cap, "C02: region outside the buffer");
            for (size_t i = 0; i < CAPMAX; ++i)
                if (i < n) {
                    /* C02: nothing a reader still has to receive lives here */
                    for (int j = 0; j < R; ++j)
                        if (rd[j].id) VASSERT(stamp[off + i] == 0 || stamp[off + i] - 1 < nxt[j], "C02: writer was handed a byte a reader has not consumed yet");
                    p[i] = (uint8_t)(wseq + i);
                    stamp[off + i] = wseq + (uint32_t)i + 1;
                }
            wptr = p; wlen = n; wmapped = 1;
        } else if (op == 1 && wmapped) {
            channel_write_unmap(&ch);
            wseq += (uint32_t)wlen; committed += (uint32_t)wlen; wmapped = 0;
        } else if (op == 2 && wmapped) {
            channel_abort_write(&ch);
            /* the stamps of the aborted region are rolled back: those bytes were never committed */
            size_t off = (size_t)(wptr - ch.data);
            for (size_t i = 0; i < CAPMAX; ++i)
                if (i < wlen) stamp[off + i] = 0;
            wmapped = 0; ++aborts;
        } else if (op == 3) {
            uint8_t j = ND(uint8_t);
            VASSUME(j < R && rd[j].state == ChannelState_Unmapped);
            int joining = rd[j].id == 0;
            if (joining) VASSUME(ch.holds.n == (unsigned)j); /* readers join in slot order */
            struct slice s = channel_read_map(&ch, &rd[j]);
            size_t len = (size_t)((uintptr_t)s.end - (uintptr_t)s.beg);
            VASSERT(rd[j].status == Channel_Ok, "reader error");
            if (joining) {
                /* the stream of a joining reader begins at a write boundary no later than now */
                nxt[j] = len ? stamp[(size_t)(s.beg - ch.data)] - 1 : committed;
                if (ch.cycle > 0) ++joins_after_wrap;
            }
            VASSERT((len == 0) == (nxt[j] == committed), "C01: empty slice although committed bytes are unread, or bytes delivered beyond what is committed");
            for (size_t i = 0; i < CAPMAX; ++i)
                if (i < len) {
                    size_t pos = (size_t)(s.beg - ch.data) + i;
                    VASSERT(stamp[pos] == nxt[j] + (uint32_t)i + 1, "C01: byte delivered out of order / twice / lost");
                    VASSERT(s.beg[i] == (uint8_t)(nxt[j] + i), "C01/C02: byte altered before the reader consumed it");
                }
            VASSERT(nxt[j] + len <= committed, "C01: reader was handed uncommitted bytes");
            maplen[j] = (uint32_t)len;
        } else if (op == 4) {
            uint8_t j = ND(uint8_t);
            VASSUME(j < R && rd[j].state == ChannelState_Mapped);
            size_t c = ND(uint8_t);
            channel_read_unmap(&ch, &rd[j], c);
            uint32_t used = c < maplen[j] ? (uint32_t)c : maplen[j];
            if (used < maplen[j]) ++partials;
            nxt[j] += used;
            maplen[j] = 0;
        } else {
            VASSUME(0);
        }
        VASSERT(inv_channel(&ch, wmapped ? W_MAPPED : W_IDLE), "INV of the step harnesses does not hold in a reachable state");
        for (int j = 0; j < R; ++j)
            if (rd[j].id && rd[j].state == ChannelState_Mapped) VASSERT(inv_mapped_reader(&ch, &rd[j]), "INV(mapped reader) does not hold in a reachable state");
    }
    COVER(wraps_seen >= 1 && committed >= cap);
    COVER(partials >= 1);
    COVER(aborts >= 1 && committed > 0);
#if K >= 7
    COVER(joins_after_wrap >= 1);
#endif
    WITNESS_END();
    return 0;
}
