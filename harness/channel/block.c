/* C03: a blocked writer always resumes when space is released or writes are refused.
 *
 * Main flow = the REAL channel_write_map(n), n < capacity, from an ARBITRARY 64-bit state
 * satisfying INV (chan_model.h) with 1..R readers.  The other threads are an environment whose
 * steps are the REAL channel_accept_writes / channel_read_map / channel_read_unmap:
 *   SCN 1 (refusal)  env = accept_writes(ch,0) [+ up to 2 arbitrary reader steps]
 *   SCN 2 (release)  env = every reader keeps reading until it is drained
 * Interleaving (mechanism A): `goto-instrument --isr env_step` inserts `if(nondet) env_step()`
 * before every access of the main flow to a variable the environment touches, i.e. between any
 * two instructions of the writer, including between its check and its sleep.  An environment
 * step that needs the channel lock while the writer holds it cannot start there (that schedule
 * is the same as one where it starts after the lock is released) -> assumed away.
 * condition_variable_notify_all inside an environment step is split off: the broadcast is
 * delivered as a separate later step (threads can be preempted between unlock and notify).
 * Sleep model: wait = {release lock, sleeping=1}; a broadcast that arrives while sleeping wakes
 * the writer, one that arrives earlier is lost (pthread semantics).  When the environment has
 * finished and the writer is asleep and not woken, it sleeps forever: violation.
 * SCN 3 (drain): a reader that keeps reading reaches the drained state in <= 3 map/unmap rounds.
 */
#include "verif.h"
#include "plat_seq.h"
#include <stdlib.h>
#include "channel.c"
#ifndef R
#define R 2
#endif
#include "chan_model.h"

static int in_env;            /* environment step in progress (no re-entrance) */
static int sleeping, woken;   /* writer state */
static int pending_notify;    /* broadcasts issued by an env step and not yet delivered */
static int main_done;
static int refuse_done;       /* accept_writes(0) has been called */
static int env_steps;
static struct channel_reader rd[R];
static int rd_drained[R];
static int hang;

#ifndef ENV_MAX
#define ENV_MAX 6
#endif

static int lock_held_by_main(void) { return verif_lock_is_held(&ch.lock) && !in_env; }

void verif_on_lock_acquire(struct lock* l)
{
    if (in_env) VASSUME(!verif_lock_is_held(l)); /* env step cannot start while the writer holds the lock */
}
void verif_on_lock_release(struct lock* l) { (void)l; }
void verif_on_notify(struct condition_variable* cv)
{
    (void)cv;
    if (in_env) { ++pending_notify; return; } /* delivered later, as its own step */
    if (sleeping) woken = 1;
}

static int
env_finished(void)
{
#if SCN == 1
    return refuse_done && pending_notify == 0;
#else
    for (unsigned i = 0; i < R; ++i)
        if (i < ch.holds.n && !rd_drained[i]) return 0;
    return pending_notify == 0;
#endif
}

static void env_step_impl(void);
static void (*env_fp)(void);
static int armed;
/* The function named to `goto-instrument --isr`: it touches (directly) exactly the channel
 * fields the writer reads between taking the lock and going to sleep, so a call to it is
 * inserted before every such read -- in particular between the writer's last check and its
 * sleep -- and the real work is reached through a function pointer so that the instrumentation
 * does not also fire on every variable the environment's callees touch. */
void
env_step(void)
{
    if (!armed) return;
    /* self-assignments: the instrumentation places a call before every main-flow READ of a
     * variable the handler WRITES */
    ch.is_accepting_writes = ch.is_accepting_writes;
    ch.head = ch.head;
    ch.holds.pos[0] = ch.holds.pos[0];
    ch.holds.cycles[0] = ch.holds.cycles[0];
    ch.cycle = ch.cycle;
    env_fp();
}
/* one atomic step of some other thread */
static void
env_step_impl(void)
{
    if (in_env || main_done || env_steps >= ENV_MAX) return;
    in_env = 1;
    ++env_steps;
    uint8_t c = ND(uint8_t);
    if (pending_notify > 0 && c == 0) {
        /* deliver one deferred broadcast */
        --pending_notify;
        if (sleeping) woken = 1;
    }
#if SCN == 1
    else if (c == 1 && !refuse_done) {
        channel_accept_writes(&ch, 0);
        refuse_done = 1;
    }
#endif
    else {
        unsigned j = ND(uint8_t);
        VASSUME(j < R && j < ch.holds.n);
#if SCN == 1
        VASSUME(c == 2 || c == 3);
#endif
        if (rd[j].state == ChannelState_Mapped) {
            size_t k = ND(size_t);
#if SCN == 2
            k = (size_t)-1; /* a reader that keeps reading consumes what it mapped */
#endif
            channel_read_unmap(&ch, &rd[j], k);
        } else {
            struct slice s = channel_read_map(&ch, &rd[j]);
            rd_drained[j] = (s.beg == s.end) || s.beg == 0;
            VASSERT(rd[j].status == Channel_Ok, "reader error in a valid state");
        }
    }
    in_env = 0;
}

void
verif_on_wait(struct condition_variable* cv, struct lock* l)
{
    (void)cv;
    /* atomically: release the lock and go to sleep */
    lock_release(l);
    sleeping = 1;
    woken = 0;
    for (int k = 0; k < ENV_MAX; ++k)
        if (!woken) env_step_impl();
    if (!woken) {
        /* maximal schedule: the environment has nothing left to do */
        VASSUME(env_finished());
        hang = 1;
        VASSERT(0, "C03: writer sleeps forever: the environment has finished (writes refused / readers drained) and no notification will arrive");
        VASSUME(0);
    }
    sleeping = 0;
    woken = 0;
    VASSUME(!verif_lock_is_held(l));
    lock_acquire(l);
}

int
main(void)
{
#if SCN == 1 || SCN == 2
    draw_channel();
    VASSUME(wstate == W_IDLE);
    VASSUME(ch.holds.n >= 1);
    ch.data = VERIF_ALLOC_NOACCESS(ch.capacity);
    VASSUME(ch.data != 0);
    lock_init(&ch.lock);
    for (unsigned i = 0; i < R; ++i) {
        /* every registered slot has its reader object; mapped readers satisfy INV */
        rd[i].id = i + 1; rd[i].status = Channel_Ok;
        rd[i].pos = ND(size_t); rd[i].cycle = ND(size_t);
        rd[i].state = ND(bool_t) ? ChannelState_Mapped : ChannelState_Unmapped;
        if (i < ch.holds.n && rd[i].state == ChannelState_Mapped) VASSUME(inv_mapped_reader(&ch, &rd[i]));
    }
    size_t n = ND(size_t);
    VASSUME(n < ch.capacity);
#if SCN == 1
    VASSUME(ch.is_accepting_writes == 1);
#else
    VASSUME(ch.is_accepting_writes == 1);
#endif
    env_fp = env_step_impl;
    armed = 1;
    void* p = channel_write_map(&ch, n);
    armed = 0;
    main_done = 1;
    VASSERT(!verif_lock_is_held(&ch.lock), "lock left held");
#if SCN == 1
    /* either it got its region before the refusal, or it returned 'no region' */
    VASSERT(p != 0 || refuse_done, "write_map returned no region although writes were never refused");
#else
    VASSERT(p != 0, "C03: write_map returned no region although writes are accepted");
#endif
#if SCN == 1
    COVER(verif_wait_count >= 1 && p == 0); /* slept, then woken by the refusal */
    COVER(verif_wait_count == 0 && p == 0);
#else
    COVER(verif_wait_count >= 1 && p != 0); /* slept, then woken by a reader */
#endif
    WITNESS_END();
#elif SCN == 3
    draw_channel();
    VASSUME(ch.holds.n >= 1);
    ch.data = VERIF_ALLOC_NOACCESS(ch.capacity);
    VASSUME(ch.data != 0);
    lock_init(&ch.lock);
    struct channel_reader r;
    draw_reader(&r, 1);
    main_done = 1; /* no environment: the writer is idle or holds a region and does not move */
    size_t total0 = ulen(U(&ch, r.id - 1));
    if (r.state == ChannelState_Mapped) channel_read_unmap(&ch, &r, (size_t)-1);
    int rounds = 0, drained = 0;
    for (int i = 0; i < 3 && !drained; ++i) {
        struct slice s = channel_read_map(&ch, &r);
        ++rounds;
        if (s.beg == s.end || s.beg == 0) drained = 1;
        else channel_read_unmap(&ch, &r, (size_t)-1);
    }
    VASSERT(drained, "C03: a reader that keeps reading did not reach the drained state within 3 map/unmap rounds");
    VASSERT(ulen(U(&ch, r.id - 1)) == 0, "C03: reader reported drained but unread bytes remain");
    VASSERT(ch.holds.pos[r.id - 1] == ch.head && ch.holds.cycles[r.id - 1] == ch.cycle, "drained reader is not at the writer's cursor");
    COVER(rounds == 3);
    COVER(total0 > 0);
    WITNESS_END();
#endif
    return 0;
}
