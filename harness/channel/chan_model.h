/* shared between the channel harnesses: unread-list model, representation invariant INV,
 * symbolic state drawing.  Requires channel.c to be #included before. */
#ifndef CHAN_MODEL_H
#define CHAN_MODEL_H
#ifndef R
#define R 3
#endif
#define CAP_MAX (((size_t)1) << 40)
#define CYC_MAX (((size_t)1) << 62)

enum { W_IDLE = 0, W_MAPPED = 1 };

struct ival { size_t b, e; };
struct ulist { struct ival a, b; }; /* normalised: empty intervals dropped / moved to the back as (0,0) */

static struct ulist
norm(struct ival x, struct ival y)
{
    struct ulist u;
    int xe = x.b == x.e, ye = y.b == y.e;
    struct ival z = { 0, 0 };
    if (xe && ye) { u.a = z; u.b = z; }
    else if (xe) { u.a = y; u.b = z; }
    else if (ye) { u.a = x; u.b = z; }
    else if (x.e == y.b) { u.a.b = x.b; u.a.e = y.e; u.b = z; } /* adjacent: merge */
    else { u.a = x; u.b = y; }
    return u;
}
static int
ueq(struct ulist p, struct ulist q)
{
    return p.a.b == q.a.b && p.a.e == q.a.e && p.b.b == q.b.b && p.b.e == q.b.e;
}
static size_t
ulen(struct ulist u)
{
    return (u.a.e - u.a.b) + (u.b.e - u.b.b);
}
/* unread list of reader slot i */
static struct ulist
U(const struct channel* c, unsigned i)
{
    struct ival x, y = { 0, 0 };
    if (c->holds.cycles[i] == c->cycle) {
        x.b = c->holds.pos[i]; x.e = c->head;
    } else {
        x.b = c->holds.pos[i]; x.e = c->high;
        y.b = 0; y.e = c->head;
    }
    return norm(x, y);
}
/* drop the first k bytes of u (k <= ulen) */
static struct ulist
udrop(struct ulist u, size_t k)
{
    size_t la = u.a.e - u.a.b;
    struct ival z = { 0, 0 };
    if (k < la) { u.a.b += k; return u; }
    k -= la;
    u.a = u.b; u.b = z;
    u.a.b += k;
    if (u.a.b == u.a.e) u.a = z;
    return u;
}
static int
disjoint(size_t b0, size_t e0, size_t b1, size_t e1)
{
    return b0 == e0 || b1 == e1 || e0 <= b1 || e1 <= b0;
}

/* ---- representation invariant ------------------------------------------------------- */
static int
inv_reader_slot(const struct channel* c, unsigned i)
{
    size_t p = c->holds.pos[i], cy = c->holds.cycles[i];
    if (cy == c->cycle)
        return p <= c->head;
    return c->cycle >= 1 && cy == c->cycle - 1 && c->head <= p && p <= c->high;
}
static int
inv_mapped_reader(const struct channel* c, const struct channel_reader* r)
{
    /* r->state == Mapped, r->id in 1..n */
    unsigned i = r->id - 1;
    size_t p = c->holds.pos[i], cy = c->holds.cycles[i];
    size_t lim = (cy == c->cycle) ? c->head : c->high;
    if (r->cycle == cy && p < r->pos && r->pos <= lim)
        return 1;
    if (r->pos == 0 && cy + 1 == c->cycle && r->cycle == c->cycle && p < c->high)
        return 1;
    return 0;
}
static size_t
mapped_len(const struct channel* c, const struct channel_reader* r)
{
    unsigned i = r->id - 1;
    if (r->cycle == c->holds.cycles[i])
        return r->pos - c->holds.pos[i];
    return c->high - c->holds.pos[i];
}
static int
inv_channel(const struct channel* c, int wstate)
{
    if (!(1 <= c->capacity && c->capacity <= CAP_MAX)) return 0;
    if (!(c->head <= c->capacity && c->high <= c->capacity && c->mapped <= c->capacity)) return 0;
    if (!(c->holds.n <= R)) return 0;
    if (!(c->is_accepting_writes <= 1)) return 0;
    for (unsigned i = 0; i < R; ++i)
        if (i < c->holds.n && !inv_reader_slot(c, i)) return 0;
    if (wstate == W_MAPPED) {
        if (!(c->head <= c->mapped)) return 0;
        for (unsigned i = 0; i < R; ++i)
            if (i < c->holds.n && c->holds.cycles[i] != c->cycle && !(c->mapped <= c->holds.pos[i])) return 0;
    }
#ifdef ALIGNED
    if ((c->head | c->high | c->mapped) & 7) return 0;
    for (unsigned i = 0; i < R; ++i)
        if (i < c->holds.n && (c->holds.pos[i] & 7)) return 0;
#endif
    return 1;
}

/* ---- symbolic pre-state --------------------------------------------------------------- */
static struct channel ch;
static int wstate;
static unsigned waits;

static void
draw_channel(void)
{
    ch.capacity = ND(size_t);
    ch.head = ND(size_t);
    ch.high = ND(size_t);
    ch.cycle = ND(size_t);
    ch.mapped = ND(size_t);
    ch.is_accepting_writes = ND(uint8_t);
    ch.holds.n = ND(unsigned);
    for (unsigned i = 0; i < R; ++i) {
        ch.holds.pos[i] = ND(size_t);
        ch.holds.cycles[i] = ND(size_t);
    }
    wstate = ND(int);
    VASSUME(wstate == W_IDLE || wstate == W_MAPPED);
    VASSUME(inv_channel(&ch, wstate));
    VASSUME(ch.cycle < CYC_MAX); /* non-inductive: 2^62 laps are unreachable */
}
static void
draw_reader(struct channel_reader* r, int registered)
{
    r->pos = ND(size_t);
    r->cycle = ND(size_t);
    r->status = Channel_Ok;
    r->state = ND(int);
    VASSUME(r->state == ChannelState_Unmapped || r->state == ChannelState_Mapped);
    if (registered) {
        r->id = ND(unsigned);
        VASSUME(1 <= r->id && r->id <= ch.holds.n);
        if (r->state == ChannelState_Mapped) {
            VASSUME(inv_mapped_reader(&ch, r));
#ifdef ALIGNED
            VASSUME((r->pos & 7) == 0); /* the end of a mapped run is a write boundary (established by read_map below) */
#endif
        }
    } else {
        r->id = 0;
        r->state = ChannelState_Unmapped;
    }
}

#endif
