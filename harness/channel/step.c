/* C01/C02 (+C03 notification audit, +C05 alignment): induction step over the real channel.c.
 *
 * Pre-state: EVERY field of struct channel and of the acting reader is symbolic (64-bit),
 * constrained only by the representation invariant INV below.  One real operation is run with
 * arbitrary arguments.  Post: INV again, plus the refinement to the "unread list" U_i of every
 * reader (what each reader still has to receive, as physical intervals of the ring):
 *   commit           appends [head_old, mapped) to every U_i
 *   read_map(j)      returns a non-empty prefix of U_j's first interval, empty iff U_j is empty
 *   read_unmap(j,k)  removes the first min(k,len) bytes of U_j
 *   everything else, and every operation for all i != j, leaves U_i unchanged as a list of
 *   physical intervals (so nothing is lost, duplicated, reordered)
 *   write_map        returns data+head', inside the buffer, disjoint from every U_i and from the
 *                    observer reader's mapped slice (C02)
 * R = number of reader slots considered (compile-time, <= 8).
 */
#include "verif.h"
#include "plat_seq.h"
#include <stdlib.h>
#include "channel.c" /* the real code, included so that static helpers are encoded too */

#include "chan_model.h"

/* snapshots */
static struct channel pre;
static struct ulist preU[R];
static struct channel outside_ref; /* shared state as of the last moment the lock was not held */
static int have_ref, discipline_ok = 1;
static void
snapshot(void)
{
    pre = ch;
    outside_ref = ch;
    have_ref = 1;
    for (unsigned i = 0; i < R; ++i)
        if (i < ch.holds.n) preU[i] = U(&ch, i);
}

/* Lock discipline: every change of the channel's shared fields happens while the channel lock is
 * held.  This is the premise under which the schedule harnesses (block.c) may run the other
 * side's operations atomically, and the reason a release of space or a refusal cannot fall
 * between the writer's check and its sleep: a bookmark stored or a flag flipped AFTER the lock is
 * released can (lost wake-up, C03). */
static int
same_shared(const struct channel* a, const struct channel* b)
{
    if (a->data != b->data || a->capacity != b->capacity || a->head != b->head || a->high != b->high || a->cycle != b->cycle || a->mapped != b->mapped ||
        a->is_accepting_writes != b->is_accepting_writes || a->holds.n != b->holds.n)
        return 0;
    for (unsigned i = 0; i < 8; ++i)
        if (a->holds.pos[i] != b->holds.pos[i] || a->holds.cycles[i] != b->holds.cycles[i]) return 0;
    return 1;
}
static void
check_discipline(void)
{
    VASSERT(discipline_ok && (!have_ref || same_shared(&ch, &outside_ref)), "C03: channel state changed outside the channel lock (a release of space or a refusal published without the lock can fall between the writer's check and its sleep)");
}
/* sync-model callbacks */
void verif_on_lock_acquire(struct lock* l) { if (l == &ch.lock && have_ref && !same_shared(&ch, &outside_ref)) discipline_ok = 0; }
void verif_on_lock_release(struct lock* l) { if (l == &ch.lock) { outside_ref = ch; have_ref = 1; } }
void verif_on_notify(struct condition_variable* cv) { (void)cv; }
static struct channel_reader obs; /* observer reader (write_map harness) */
static int obs_on;
void
verif_on_wait(struct condition_variable* cv, struct lock* l)
{
    /* The writer sleeps: it has released the lock, any number of other operations run, it
     * wakes with the lock held.  Any state it can wake up in satisfies INV (induction
     * hypothesis), so the state is re-drawn; the writer itself is idle while it sleeps. A second
     * sleep would again wake in an arbitrary INV state, so one is enough. */
    (void)cv;
    VASSUME(waits == 0);
    ++waits;
    uint8_t* data = ch.data;
    struct lock lk = ch.lock;
    size_t cap = ch.capacity;
    unsigned n_before = ch.holds.n;
    draw_channel();
    VASSUME(ch.holds.n >= n_before); /* readers only ever join (channel_release is outside the claim) */
    VASSUME(wstate == W_IDLE);
    VASSUME(ch.capacity == cap); /* the capacity never changes after channel_new */
    ch.data = data;
    ch.lock = lk;
    if (obs_on) {
        draw_reader(&obs, 1);
        VASSUME(obs.state == ChannelState_Mapped);
    }
    snapshot();
}

static void
others_unchanged(unsigned except_slot)
{
    for (unsigned i = 0; i < R; ++i)
        if (i < pre.holds.n && i != except_slot) {
            VASSERT(ueq(U(&ch, i), preU[i]), "another reader's unread list changed");
        }
}
/* lexicographic minimum of (cycle, pos) over the registered holds: the one quantity through
 * which readers bound the writer */
static void
min_hold(const struct channel* c, size_t* cyc, size_t* pos)
{
    *cyc = c->holds.cycles[0];
    *pos = c->holds.pos[0];
    for (unsigned i = 1; i < R; ++i)
        if (i < c->holds.n &&
            (c->holds.cycles[i] < *cyc || (c->holds.cycles[i] == *cyc && c->holds.pos[i] < *pos))) {
            *cyc = c->holds.cycles[i];
            *pos = c->holds.pos[i];
        }
}
static int
min_hold_moved(void)
{
    size_t c0, p0, c1, p1;
    min_hold(&pre, &c0, &p0);
    min_hold(&ch, &c1, &p1);
    return c0 != c1 || p0 != p1;
}
static void
all_unchanged(void)
{
    others_unchanged(R + 1);
}
static void
writer_fields_unchanged(void)
{
    VASSERT(ch.head == pre.head && ch.high == pre.high && ch.cycle == pre.cycle &&
              ch.mapped == pre.mapped && ch.capacity == pre.capacity &&
              ch.is_accepting_writes == pre.is_accepting_writes,
            "writer-side fields changed by a reader operation");
}

static void
setup(void)
{
    draw_channel();
    ch.data = VERIF_ALLOC_NOACCESS(ch.capacity);
    VASSUME(ch.data != 0);
#ifdef ALIGNED
    /* malloc returns 8-aligned memory */
#endif
    lock_init(&ch.lock);
    snapshot();
}

#define OP_WRITE_MAP 1
#define OP_WRITE_UNMAP 2
#define OP_ABORT 3
#define OP_ACCEPT 4
#define OP_READ_MAP 5
#define OP_READ_UNMAP 6
#define OP_NEW 7
#define OP_READ_MAP_JOIN 8

int
main(void)
{
#if OP == OP_NEW
    /* base case: channel_new establishes INV with no readers, writer idle */
    size_t cap = ND(size_t);
    VASSUME(1 <= cap && cap <= 64);
    channel_new(&ch, cap);
    VASSERT(inv_channel(&ch, W_IDLE), "channel_new does not establish INV");
    VASSERT(ch.holds.n == 0 && ch.head == 0 && ch.cycle == 0 && ch.is_accepting_writes == 1, "channel_new initial state");
    VASSERT(!verif_lock_is_held(&ch.lock), "lock left held");
    WITNESS_END();
#elif OP == OP_WRITE_MAP
    setup();
    VASSUME(wstate == W_IDLE);
    obs_on = ND(bool_t);
    if (obs_on) {
        draw_reader(&obs, 1);
        VASSUME(obs.state == ChannelState_Mapped);
    }
    size_t n = ND(size_t);
#ifdef ALIGNED
    VASSUME((n & 7) == 0);
#endif
    uint8_t* r = channel_write_map(&ch, n);
    VASSERT(!verif_lock_is_held(&ch.lock), "lock left held");
    check_discipline();
    if (r) {
        VASSERT(n < ch.capacity, "granted a request >= capacity");
        VASSERT(ch.is_accepting_writes || ch.holds.n == 0, "granted while refusing writes (with readers registered)");
        VASSERT(r == ch.data + ch.head, "C02: region does not start at the write cursor");
        VASSERT(ch.head + n <= ch.capacity && ch.mapped == ch.head + n, "C02: region not inside the buffer / mapped end wrong");
        VASSERT(inv_channel(&ch, W_MAPPED), "INV broken by write_map");
        for (unsigned i = 0; i < R; ++i)
            if (i < ch.holds.n) {
                struct ulist u = U(&ch, i);
                VASSERT(disjoint(ch.head, ch.mapped, u.a.b, u.a.e) && disjoint(ch.head, ch.mapped, u.b.b, u.b.e),
                        "C02: writer region overlaps bytes a reader has not consumed");
            }
        if (obs_on) {
            size_t ob = ch.holds.pos[obs.id - 1], oe = ob + mapped_len(&pre, &obs);
            /* the observer's slice was [pos, pos+len) in the pre-state; holds only move on unmap */
            VASSERT(pre.holds.pos[obs.id - 1] == ob || mapped_len(&pre, &obs) == 0, "write_map moved the hold of a mapped reader");
            VASSERT(disjoint(ch.head, ch.mapped, ob, oe), "C02: writer region overlaps a mapped reader slice");
            VASSERT(inv_mapped_reader(&ch, &obs), "INV(mapped reader) broken by write_map");
        }
        all_unchanged();
        COVER(ch.cycle == pre.cycle + 1 && ch.holds.n > 0 && ch.holds.pos[0] == 0 && pre.holds.pos[0] != 0); /* wrap with reader reset */
        COVER(ch.cycle == pre.cycle + 1 && ch.holds.n > 0 && ch.holds.cycles[0] == pre.cycle);             /* wrap, reader stays behind */
        COVER(ch.holds.n > 0 && ch.holds.cycles[0] + 1 == ch.cycle && ch.mapped == ch.holds.pos[0]);        /* exactly fills up to the tail */
        COVER(waits == 1);
        COVER(ch.holds.n == 0 && ch.cycle == pre.cycle + 1);
    } else {
        VASSERT(n >= ch.capacity || !ch.is_accepting_writes, "write_map returned no region although writes are accepted and n < capacity");
        VASSERT(inv_channel(&ch, W_IDLE), "INV broken by refused write_map");
        all_unchanged();
        VASSERT(ch.head == pre.head && ch.cycle == pre.cycle && ch.high == pre.high, "refused write_map moved the cursor");
    }
    WITNESS_END();
#elif OP == OP_WRITE_UNMAP
    setup();
    VASSUME(wstate == W_MAPPED);
    channel_write_unmap(&ch);
    VASSERT(!verif_lock_is_held(&ch.lock), "lock left held");
    check_discipline();
    VASSERT(inv_channel(&ch, W_IDLE), "INV broken by write_unmap");
    if (pre.is_accepting_writes) {
        VASSERT(ch.head == pre.mapped, "commit did not advance the cursor to the end of the region");
        for (unsigned i = 0; i < R; ++i)
            if (i < ch.holds.n) {
                /* U_i(post) = U_i(pre) ++ [head_old, mapped) */
                struct ulist u = U(&ch, i);
                VASSERT(ulen(u) == ulen(preU[i]) + (pre.mapped - pre.head), "C01: commit did not append exactly the written bytes");
                VASSERT(ueq(udrop(u, 0), u), "norm");
                /* dropping the committed tail gives back the old list: compare prefixes */
                struct ulist old = preU[i];
                if (ulen(old) == 0) {
                    VASSERT(pre.mapped == pre.head || (u.a.b == pre.head && u.a.e == pre.mapped), "C01: first committed bytes not where they were written");
                } else {
                    VASSERT(u.a.b == old.a.b, "C01: commit changed the front of an unread list");
                    if (old.b.b == old.b.e) {
                        /* single interval before: either extended in place or a second one opened at 0 */
                        VASSERT((u.b.b == u.b.e && u.a.e == old.a.e + (pre.mapped - pre.head) && old.a.e == pre.head) ||
                                  (u.a.e == old.a.e && u.b.b == pre.head && u.b.e == pre.mapped) ||
                                  pre.mapped == pre.head,
                                "C01: committed bytes not appended in order");
                    } else {
                        VASSERT(u.a.e == old.a.e && u.b.b == old.b.b && u.b.e == pre.mapped && old.b.e == pre.head, "C01: committed bytes not appended in order (two intervals)");
                    }
                }
            }
    } else {
        VASSERT(ch.head == pre.head, "refused commit moved the cursor");
        all_unchanged();
    }
    VASSERT(ch.holds.n == pre.holds.n && ch.cycle == pre.cycle && ch.high == pre.high, "commit changed lap bookkeeping");
    COVER(pre.is_accepting_writes && pre.mapped > pre.head && ch.holds.n > 0 && ch.holds.cycles[0] != ch.cycle);
    COVER(!pre.is_accepting_writes);
    WITNESS_END();
#elif OP == OP_ABORT
    setup();
    channel_abort_write(&ch);
    VASSERT(!verif_lock_is_held(&ch.lock), "lock left held");
    check_discipline();
    VASSERT(inv_channel(&ch, W_IDLE), "INV broken by abort_write");
    all_unchanged();
    VASSERT(ch.head == pre.head && ch.cycle == pre.cycle && ch.high == pre.high, "abort moved the cursor");
    VASSERT(!pre.is_accepting_writes || ch.mapped == ch.head, "abort left a pending region");
    WITNESS_END();
#elif OP == OP_ACCEPT
    setup();
    uint32_t tf = ND(uint32_t);
    VASSUME(tf <= 1);
    unsigned n0 = verif_notify_count;
    channel_accept_writes(&ch, tf);
    VASSERT(!verif_lock_is_held(&ch.lock), "lock left held");
    check_discipline();
    VASSERT(ch.is_accepting_writes == tf, "flag not stored");
    VASSERT(inv_channel(&ch, wstate), "INV broken by accept_writes");
    all_unchanged();
    VASSERT(ch.head == pre.head && ch.cycle == pre.cycle && ch.high == pre.high && ch.mapped == pre.mapped, "accept_writes moved a cursor");
    VASSERT(verif_notify_count > n0, "C03: accept/refuse toggle emitted no notification");
    WITNESS_END();
#elif OP == OP_READ_MAP || OP == OP_READ_MAP_JOIN
    setup();
    struct channel_reader rd;
#if OP == OP_READ_MAP_JOIN
    VASSUME(ch.holds.n < R && ch.holds.n < 7); /* property: 1..8 readers */
    draw_reader(&rd, 0);
#else
    draw_reader(&rd, 1);
    VASSUME(rd.state == ChannelState_Unmapped);
#endif
    unsigned n0 = verif_notify_count;
    struct slice s = channel_read_map(&ch, &rd);
    VASSERT(!verif_lock_is_held(&ch.lock), "lock left held");
    check_discipline();
    VASSERT(rd.id >= 1 && rd.id <= ch.holds.n, "reader id out of range");
    unsigned j = rd.id - 1;
    VASSERT(rd.status == Channel_Ok, "read_map reported an error on a valid state");
    writer_fields_unchanged();
    VASSERT(inv_channel(&ch, wstate), "INV broken by read_map");
    others_unchanged(j);
#if OP == OP_READ_MAP_JOIN
    VASSERT(ch.holds.n == pre.holds.n + 1 && j == pre.holds.n, "join did not register exactly one reader");
    struct ulist before; /* a joining reader starts at the beginning of the current lap */
    { struct ival x = { 0, pre.head }, y = { 0, 0 }; before = norm(x, y); }
#else
    VASSERT(ch.holds.n == pre.holds.n, "reader count changed");
    struct ulist before = preU[j];
#endif
    VASSERT(ueq(U(&ch, j), before), "C01: read_map changed what the reader still has to receive");
    size_t len = (size_t)((uintptr_t)s.end - (uintptr_t)s.beg);
    if (ulen(before) == 0) {
        VASSERT(len == 0, "C01: non-empty slice although the reader is drained");
        VASSERT(rd.state == ChannelState_Unmapped, "drained reader left in Mapped state");
    } else {
        VASSERT(len > 0 && s.beg != 0, "C01: empty slice although committed bytes are unread (empty must mean drained)");
        VASSERT(s.beg == ch.data + before.a.b, "C01: slice does not start at the next unread byte");
        VASSERT(len <= before.a.e - before.a.b, "C01/C02: slice extends beyond committed contiguous data");
        VASSERT(rd.state == ChannelState_Mapped, "reader with a slice not Mapped");
        VASSERT(inv_mapped_reader(&ch, &rd), "INV(mapped reader) not established");
        VASSERT(mapped_len(&ch, &rd) == len, "reader bookkeeping disagrees with the returned slice");
#ifdef ALIGNED
        VASSERT((rd.pos & 7) == 0 && (len & 7) == 0, "C05: mapped run does not end on an 8-byte boundary");
#endif
        VASSERT(len == before.a.e - before.a.b, "slice is not the whole contiguous unread run");
    }
    /* C03: when a read_map moves the hold without mapping anything it may have released space */
    if (rd.state == ChannelState_Unmapped && (ch.holds.pos[j] != pre.holds.pos[j] || ch.holds.cycles[j] != pre.holds.cycles[j])
#if OP == OP_READ_MAP_JOIN
        && 0
#endif
    ) {
        VASSERT(verif_notify_count > n0, "C03: hold moved (space released) without a notification");
    }
#if OP == OP_READ_MAP
    COVER(len > 0 && before.b.b != before.b.e);                 /* reading the old lap while a new one exists */
    COVER(len > 0 && pre.holds.cycles[j] != ch.holds.cycles[j]); /* reader moved to the new lap and reads it */
#endif
    COVER(len == 0);
    COVER(len > 0);
    WITNESS_END();
#elif OP == OP_READ_UNMAP
    setup();
    struct channel_reader rd;
    draw_reader(&rd, 1);
    size_t k = ND(size_t);
#ifdef ALIGNED
    VASSUME((k & 7) == 0);
#endif
    unsigned j = rd.id - 1;
    int was_mapped = rd.state == ChannelState_Mapped;
    size_t len = was_mapped ? mapped_len(&ch, &rd) : 0;
    unsigned n0 = verif_notify_count;
    channel_read_unmap(&ch, &rd, k);
    VASSERT(!verif_lock_is_held(&ch.lock), "lock left held");
    check_discipline();
    writer_fields_unchanged();
    VASSERT(inv_channel(&ch, wstate), "INV broken by read_unmap");
    others_unchanged(j);
    VASSERT(ch.holds.n == pre.holds.n, "reader count changed");
    VASSERT(rd.state == ChannelState_Unmapped, "reader still Mapped after unmap");
    if (was_mapped) {
        size_t kk = k < len ? k : len;
        VASSERT(ueq(U(&ch, j), udrop(preU[j], kk)), "C01: unmap did not consume exactly min(k,len) bytes from the front");
        /* C03: the writer's wait predicate depends on the readers only through the slowest hold
         * (lexicographic minimum of (cycle, pos)); whenever this unmap moves that minimum the
         * sleeping writer must be notified. An unmap that leaves the minimum where it was frees
         * nothing and may stay silent. */
        if (min_hold_moved())
            VASSERT(verif_notify_count > n0, "C03: unmap advanced the slowest hold (space released) without a notification");
    } else {
        VASSERT(ueq(U(&ch, j), preU[j]), "unmap of an unmapped reader changed its position");
    }
    COVER(was_mapped && k < len && k > 0);
    COVER(was_mapped && k >= len && ch.holds.cycles[j] != pre.holds.cycles[j]);
    COVER(was_mapped && k == 0);
    WITNESS_END();
#else
#error "OP not set"
#endif
    return 0;
}
