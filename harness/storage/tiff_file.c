/* C15 / C16 for the tiff storage device.  tiff.cpp is C++20: it is compiled by clang++-14 to LLVM
 * IR, translated to C by ir2c/ir2c.py (regenerated and differentially validated against the g++
 * build on every run, see ir2c/gen.py) and the generated C is what CBMC executes here, driven
 * through the REAL HAL storage_* wrappers.
 *
 * File layer: file_create / file_write / file_close are modelled at the platform API (the real
 * platform.c functions are covered by C14): a byte image of FSZ bytes + ownership bookkeeping.
 * vsnprintf (image description) returns a length DESC and records its variadic arguments.
 * Allocation stubs hand out fixed-capacity objects (sizes read back from the type-erased Tiff
 * object are not constant-propagated by symex).
 *
 * MODE 15: set; start; append N frames in packets per GROUPING; stop.  An independent reader
 *   walks the image: header II 2B 00 08 00 00, first IFD at 16, N directories chained by `next`,
 *   last next == 0, every IFD has 16 tags, width/height/bits/sample format of the i-th frame,
 *   strip inside the file with the frame's pixel bytes, description inside the file carrying the
 *   frame's ids and timestamps (recorded format arguments), structures disjoint and in order.
 * MODE 16: life-cycle template set? start? append? append? stop? stop? close with a failing
 *   file_create and one-shot / persistent file_write failures at symbolic call indices.
 */
#include "verif.h"
#include <stdlib.h>
#include <string.h>
#include <stdarg.h>
#include "device/hal/device.manager.h"
#include "device/hal/storage.h"
#include "device/kit/storage.h"
#include "device/kit/driver.h"
#include "device/props/storage.h"
#include "device/props/components.h"
#include "platform.h"

struct Storage* tiff_init(void);
struct Storage* side_by_side_tiff_init(void);
#ifndef DEV
#define DEV 1 /* 1 tiff, 2 tiff-json composite (side-by-side-tiff.cpp) */
#endif

#ifndef NFRAMES
#define NFRAMES 1
#endif
#ifndef DESC
#define DESC 12 /* length vsnprintf reports for every description (> 7: goes to the string section) */
#endif
#define PXB 8   /* image bytes per frame */
#define FSZ (16 + NFRAMES * (8 + 16 * 20 + 8 + PXB + 8 + ((DESC + 1 + 7) / 8) * 8 + 16) + 64)

/* ---- C++ runtime / libc stubs used by the translated code ---- */
/* `new Tiff` returns a TYPED static object that mirrors the class layout (checked against the
 * size the translated code asks for): the translated code reaches members through
 * `*(T*)((char*)self + offset)`; on a typed object with a member of type T at that offset CBMC
 * resolves this to the member and constant-propagates the stored values (file offsets, string
 * section sizes); on a malloc'ed byte array it does not, and every later file_write has a symbolic
 * offset (no verdict in 25 min). */
struct str_mirror { char* p; size_t len; union { char buf[16]; size_t cap; } u; };
struct tiff_mirror {
    struct Storage base;
    struct str_mirror filename, metadata;
    struct PixelScale pixel_scale;
    struct file file; int pad_;
    uint64_t last_offset, last_ifd_next_offset;
    size_t frame_count;
    int64_t ss_offset, ss_capacity, ss_size;
    char* ss_data;
};
static struct tiff_mirror the_tiff;
static int tiff_live;
void*
_Znwm(unsigned long n)
{
    /* the device object is handed out as a TYPED static object; any other allocation of the unit
     * (e.g. a std::string that outgrows its small buffer) is an ordinary heap object */
    if (n == sizeof(struct tiff_mirror) && !tiff_live) {
        tiff_live = 1;
        return &the_tiff;
    }
    void* p = malloc(n);
    VASSUME(p != 0);
    return p;
}
void _ZdlPv(void* p) { if (p == (void*)&the_tiff) tiff_live = 0; else free(p); }
void _ZdlPvm(void* p, unsigned long n) { _ZdlPv(p); }
#if DEV == 2
/* minimal exception runtime for the composite's CHECK-throws-runtime_error / catch-in-same-function
 * pattern: the exception object's vptr leads to a table whose `what` slot (Itanium ABI: third
 * virtual function of std::exception) is a stub */
static const char* exn_what(void* self) { return ""; }
static void* fake_vtable[5] = { 0, 0, 0, 0, (void*)exn_what };
static char exn_store[4][16] __attribute__((aligned(16)));
static int exn_n;
void* __cxa_allocate_exception(unsigned long n) { VASSERT(n <= 16 && exn_n < 4, "exception object"); return exn_store[exn_n++]; }
void __cxa_free_exception(void* p) {}
void _ZNSt13runtime_errorC1EPKc(void* self, const char* msg) { *(void***)self = &fake_vtable[2]; }
void* __cxa_begin_catch(void* p) { return p; }
#else
void* __cxa_begin_catch(void* p) { VASSUME(0); return 0; }
#endif
void __cxa_end_catch(void) {}
void _ZSt9terminatev(void) { VASSUME(0); }
void __clang_call_terminate(void* p) { VASSUME(0); }
void _ZSt17__throw_bad_allocv(void) { VASSUME(0); }
void _ZSt20__throw_length_errorPKc(const char* s) { VASSUME(0); }
void _ZSt19__throw_logic_errorPKc(const char* s) { VASSUME(0); }
#ifndef VERIF_REPLAY
void*
realloc(void* p, size_t n)
{
    VASSUME(n <= 64);
    void* q = malloc(64);
    VASSUME(q != 0);
    if (p) free(p);
    return q;
}
#endif

/* ---- file model ---- */
static uint64_t flen;
static int is_open, n_close, n_create, n_write, bad_ops, cur_is_tif, n_tif_create, n_other_create;
static int fail_create, fail_write_at = -1, fail_write_from = -1, write_errors;
int file_is_writable(const char* f, size_t n) { return 1; }
int
file_create(struct file* f, const char* name, size_t n)
{
    if (fail_create) return 0;
    if (is_open) ++bad_ops; /* a second descriptor while one is open: the first is lost */
    f->fid = 5;
    is_open = 1;
    ++n_create;
    flen = 0;
    /* the streaming TIFF reader only looks at the .tif file (the composite also writes metadata.json) */
#if DEV == 2
    cur_is_tif = n >= 4 && name[n - 4] == '.' && name[n - 3] == 't' && name[n - 2] == 'i' && name[n - 1] == 'f';
#else
    cur_is_tif = 1;
#endif
    if (cur_is_tif) ++n_tif_create; else ++n_other_create;
    return 1;
}
void
file_close(struct file* f)
{
    if (!is_open || f->fid != 5) { ++bad_ops; return; }
    is_open = 0;
    ++n_close;
}
/* Streaming reader: every write is classified by its position in the expected sequence
 *   header | per frame: directory, strip, strings | terminator
 * and the scalars an independent TIFF reader would look at are extracted with typed loads at the
 * moment of the write (a byte image of the file re-read at the end cost > 12 GB for one frame). */
union frame;
static void on_write(uint64_t off, const uint8_t* beg, size_t n);
int
file_write(const struct file* f, uint64_t off, const uint8_t* beg, const uint8_t* end)
{
    int idx = n_write++;
    if (!is_open || f->fid != 5) { ++bad_ops; return 0; } /* write on a descriptor the device does not own (any more) */
    if (idx == fail_write_at || (fail_write_from >= 0 && idx >= fail_write_from)) { ++write_errors; return 0; }
    size_t n = (size_t)(end - beg);
#if MODE == 15
    if (cur_is_tif) on_write(off, beg, n);
#endif
    if (off + n > flen) flen = off + n;
    return 1;
}
/* ---- vsnprintf model ----
 * The description is produced by vsnprintf(fmt, ...).  The model does not render text; it walks
 * the format (a constant of the unit, or whatever the unit built) and records, per conversion,
 * WHICH JSON KEY immediately precedes it and the argument passed for it: "key":%llu -> number,
 * "metadata":%s -> string.  Any other conversion in a description format is reported (a '%' that
 * comes from user text would be interpreted by the C library: the description is then not the
 * JSON the property promises, and the call reads arguments that do not exist). */
#define NKEYS 4
static const char* const KEYS[NKEYS] = { "\"frame_id\":", "\"hardware_frame_id\":", "\"runtime\":", "\"hardware\":" };
static const int KEYLEN[NKEYS] = { 11, 20, 10, 11 };
static unsigned long long va_rec[NFRAMES + 1][NKEYS];
static int va_have[NFRAMES + 1][NKEYS];
static const char* va_meta[NFRAMES + 1];
static int va_calls, va_bad_conv, va_bad_key;
static int
key_before(const char* fmt, int pos, const char* key, int klen)
{
    if (pos < klen) return 0;
    for (int i = 0; i < 20; ++i)
        if (i < klen && fmt[pos - klen + i] != key[i]) return 0;
    return 1;
}
#ifndef FMTMAX
#define FMTMAX 140
#endif
int
vsnprintf(char* buf, size_t n, const char* fmt, va_list ap)
{
    if (buf) {
        /* second call (with a buffer): record the arguments of this description */
        int k = va_calls < NFRAMES ? va_calls : NFRAMES;
        for (int i = 0; i < FMTMAX; ++i) {
            if (fmt[i] == 0) break;
            if (fmt[i] != '%') continue;
            if (fmt[i + 1] == 'l' && fmt[i + 2] == 'l' && fmt[i + 3] == 'u') {
                unsigned long long v = va_arg(ap, unsigned long long);
                int hit = 0;
                for (int q = 0; q < NKEYS; ++q)
                    if (key_before(fmt, i, KEYS[q], KEYLEN[q])) { va_rec[k][q] = v; ++va_have[k][q]; hit = 1; }
                if (!hit) ++va_bad_key;
                i += 3;
            } else if (fmt[i + 1] == 's') {
                const char* sarg = va_arg(ap, const char*);
                if (key_before(fmt, i, "\"metadata\":", 11)) va_meta[k] = sarg; else ++va_bad_key;
                i += 1;
            } else if (fmt[i + 1] == '%') {
                i += 1;
            } else {
                ++va_bad_conv;
                break;
            }
        }
        ++va_calls;
        for (size_t i = 0; i < DESC + 1; ++i)
            if (i < n) buf[i] = (i + 1 < n) ? 'x' : 0;
    }
    return DESC;
}
void aq_logger(int is_error, const char* file, int line, const char* function, const char* fmt, ...) {}
const char* device_kind_as_string(enum DeviceKind k) { return ""; }
const char* device_state_as_string(enum DeviceState s) { return ""; }

static int destroyed;
static enum DeviceStatusCode
drv_close(struct Driver* d, struct Device* in)
{
    struct Storage* w = (struct Storage*)((char*)in - offsetof(struct Storage, device));
    w->destroy(w);
    ++destroyed;
    return Device_Ok;
}
static struct Driver drv = { .close = drv_close };
struct Driver* device_manager_get_driver(const struct DeviceManager* self, const struct DeviceIdentifier* identifier) { return &drv; }

#if DEV == 2
#ifndef SBS_START_STEP3
/* mirrors:  state = self->tiff->state = self->tiff->set(self->tiff, &props);   CHECK(state == DeviceState_Armed);
 *           state = self->tiff->state = self->tiff->start(self->tiff);        CHECK(state == DeviceState_Running);
 * (before the fix of the tiff-json state defect the two assignments to self->tiff->state were
 * missing: compile with -DSBS_PRE_FIX to see the check fail on that text) */
#ifdef SBS_PRE_FIX
#define SBS_START_STEP3                                                                    \
    state = self->tiff->set(self->tiff, &props);                                            \
    if (state != DeviceState_Armed) return DeviceState_AwaitingConfiguration;               \
    state = self->tiff->start(self->tiff);                                                  \
    if (state != DeviceState_Running) return DeviceState_AwaitingConfiguration;
#else
#define SBS_START_STEP3                                                                    \
    state = self->tiff->state = self->tiff->set(self->tiff, &props);                        \
    if (state != DeviceState_Armed) return DeviceState_AwaitingConfiguration;               \
    state = self->tiff->state = self->tiff->start(self->tiff);                              \
    if (state != DeviceState_Running) return DeviceState_AwaitingConfiguration;
#endif
#endif
/* side_by_side_tiff_set / _start use std::filesystem and are NOT translated.  They are modelled
 * here by hand, statement for statement after steps 2 and 3 of the real side_by_side_tiff_start
 * (the runner refuses to run when that source text changes, see props/_tiff_common.py). */
struct sbs { struct Storage storage; struct Storage* tiff; struct StorageProperties props; };
/* typed static object for the composite (its `tiff` pointer and function pointers are then
 * constant-propagated; read back from a malloc'ed byte array they were not, and every call
 * through them fanned out over all functions: no verdict in 30 min) */
static struct sbs the_sbs;
char* verif_sbs_alloc(uint64_t n) { VASSERT(n == sizeof(struct sbs), "layout of SideBySideTiff changed"); return (char*)&the_sbs; }
#ifdef SBS_FULL
/* ---- the WHOLE composite is translated (set and start too); what remains outside is libstdc++'s
 * std::filesystem, modelled here at the level the unit uses it:
 *   path            = { std::string pathname; tagged pointer to the component list }, always handled
 *                     as a single component (type tag _Filename), so generic_string() is the pathname
 *   status(p)       = "." is a writable directory; the target folder exists as a directory, exists as
 *                     a regular file, or does not exist (symbolic initial state); anything else: not found
 *   create_directory= creates the folder, or fails by returning false, or throws (symbolic)
 *   parent_path(), operator/= work on the pathname text (bounded to the small-string buffer)
 * storage_properties_copy / _set_uri (C, decided by C13) are modelled as a struct copy / a reference. */
extern char* verif_exn;
struct fspath { struct str_mirror s; uintptr_t cmpts; };
_Static_assert(sizeof(struct fspath) == 40, "layout of std::filesystem::path");
static int folder_state; /* 0 absent, 1 directory, 2 regular file */
static int n_mkdir;
static void fs_throw(void) { static struct { void** vt; const char* m; } e; e.vt = &fake_vtable[2]; verif_exn = (char*)&e; }
void _ZNSt10filesystem7__cxx114path5_ListC1Ev(char* self) { *(uintptr_t*)self = 0; }
void _ZNSt10filesystem7__cxx114path5_ListC1ERKS2_(char* self, char* o) { *(uintptr_t*)self = *(uintptr_t*)o & 3; }
void _ZNKSt10filesystem7__cxx114path5_List13_Impl_deleterclEPNS2_5_ImplE(char* self, char* p) { VASSERT(((uintptr_t)p & ~(uintptr_t)3) == 0, "path component list freed although the model never allocates one"); }
char* _ZNKSt10filesystem7__cxx114path5_List5beginEv(char* self) { return 0; }
char* _ZNKSt10filesystem7__cxx114path5_List3endEv(char* self) { return 0; }
void _ZNSt10filesystem7__cxx114path14_M_split_cmptsEv(char* self) { ((struct fspath*)self)->cmpts = 3; /* _Type::_Filename: one component */ }
static int
path_is(const struct fspath* p, const char* lit, size_t n)
{
    if (p->s.len != n) return 0;
    for (size_t i = 0; i < 15; ++i)
        if (i < n && p->s.p[i] != lit[i]) return 0;
    return 1;
}
uint64_t
_ZNSt10filesystem6statusERKNS_7__cxx114pathE(char* p_)
{
    const struct fspath* p = (const struct fspath*)p_;
    /* file_status { file_type (signed char): not_found -1, regular 1, directory 2; perms (unsigned) } */
    if (path_is(p, ".", 1)) return ((uint64_t)0755 << 32) | 2;
    if (path_is(p, "a", 1)) {
        if (folder_state == 1) return ((uint64_t)0755 << 32) | 2;
        if (folder_state == 2) return ((uint64_t)0644 << 32) | 1;
    }
    return ((uint64_t)0xFFFF << 32) | 0xFF; /* not_found, perms::unknown */
}
uint8_t
_ZNSt10filesystem16create_directoryERKNS_7__cxx114pathE(char* p_)
{
    ++n_mkdir;
#ifdef MKDIR_HOW
    uint8_t how = MKDIR_HOW; /* fixed per harness instance */
#else
    uint8_t how = ND(uint8_t);
    VASSUME(how < 3);
#endif
    if (how == 2) { fs_throw(); return 0; }
    if (how == 1 || folder_state != 0) return 0;
    folder_state = 1;
    return 1;
}
void
_ZNKSt10filesystem7__cxx114path11parent_pathEv(char* ret_, char* self_)
{
    struct fspath* r = (struct fspath*)ret_;
    const struct fspath* p = (const struct fspath*)self_;
    VASSERT(p->s.len <= 15, "harness bound: path longer than the small-string buffer");
    size_t cut = 0;
    for (size_t i = 0; i < 15; ++i)
        if (i < p->s.len && p->s.p[i] == '/') cut = i;
    r->s.p = r->s.u.buf;
    for (size_t i = 0; i < 15; ++i)
        if (i < cut) r->s.u.buf[i] = p->s.p[i];
    r->s.u.buf[cut] = 0;
    r->s.len = cut;
    r->cmpts = 3;
}
char*
_ZNSt10filesystem7__cxx114pathdVERKS1_(char* self_, char* o_)
{
    struct fspath* p = (struct fspath*)self_;
    const struct fspath* o = (const struct fspath*)o_;
    size_t n = p->s.len, add = o->s.len;
    int sep = n > 0 && p->s.p[n - 1] != '/';
    VASSERT(n + sep + add <= 15 && p->s.p == p->s.u.buf, "harness bound: joined path longer than the small-string buffer");
    if (sep) p->s.u.buf[n++] = '/';
    for (size_t i = 0; i < 15; ++i)
        if (i < add) p->s.u.buf[n + i] = o->s.p[i];
    p->s.len = n + add;
    p->s.u.buf[n + add] = 0;
    return self_;
}
int storage_properties_copy(struct StorageProperties* dst, const struct StorageProperties* src) { *dst = *src; return 1; }
int storage_properties_set_uri(struct StorageProperties* p, const char* str, size_t n) { p->uri.str = (char*)str; p->uri.nbytes = n; p->uri.is_ref = 1; return 1; }
#else
uint32_t
_ZN12_GLOBAL__N_121side_by_side_tiff_setEP7StoragePK17StorageProperties(char* self_, char* props_)
{
    struct sbs* self = (struct sbs*)self_;
    self->props = *(const struct StorageProperties*)props_; /* (deep copy in the real code) */
    return DeviceState_Armed;
}
uint32_t
_ZN12_GLOBAL__N_123side_by_side_tiff_startEP7Storage(char* self_)
{
    struct sbs* self = (struct sbs*)self_;
    enum DeviceState state = DeviceState_AwaitingConfiguration;
    /* 2. write metadata.json file */
    if (self->props.external_metadata_json.nbytes) {
        struct file file = { 0 };
        if (!file_create(&file, "d/metadata.json", 15)) return DeviceState_AwaitingConfiguration;
        int is_ok = file_write(&file, 0, (uint8_t*)self->props.external_metadata_json.str,
                               (uint8_t*)self->props.external_metadata_json.str + self->props.external_metadata_json.nbytes - 1);
        file_close(&file);
        if (!is_ok) return DeviceState_AwaitingConfiguration;
    }
    /* 3. set/start tiff writer */
    {
        static char video_path[] = "d/data.tif";
        struct StorageProperties props = self->props;
        props.uri.str = video_path; props.uri.nbytes = sizeof(video_path) - 1; props.uri.is_ref = 1;
        if (!self->tiff) return DeviceState_AwaitingConfiguration;
        SBS_START_STEP3
    }
    return state;
}
#endif /* SBS_FULL */
#endif

union frame { struct VideoFrame v; uint8_t raw[sizeof(struct VideoFrame) + PXB]; };
static union frame F[NFRAMES];
static uint8_t packet[NFRAMES * sizeof(union frame)] __attribute__((aligned(8)));

static size_t
bpt(enum SampleType t)
{
    return (t == SampleType_u8 || t == SampleType_i8) ? 1 : (t == SampleType_f32 ? 4 : 2);
}

/* ---- streaming reader state ---- */
static int stage;            /* 0 header expected; then 1+3*i directory, 2+3*i strip, 3+3*i strings; last: terminator */
static int rd_errors;        /* any deviation from a valid BigTIFF with the frames' content */
static uint64_t prev_end = 16, first_ifd_expected = 16, cur_ifd, link_pos, link_val, strip_off, strip_len, d_off, d_cnt;
static int terminated, frames_read;
#define BAD(c) do { if (!(c)) ++rd_errors; } while (0)
static uint16_t ld16(const uint8_t* p) { return *(const uint16_t*)p; }
static uint32_t ld32(const uint8_t* p) { return *(const uint32_t*)p; }
static uint64_t ld64(const uint8_t* p) { return *(const uint64_t*)p; }
static void
on_write(uint64_t off, const uint8_t* beg, size_t n)
{
    if (stage == 0) {
        /* header: II 2B 00 08 00 00, first directory at 16 */
        BAD(off == 0 && n == 16);
        BAD(beg[0] == 'I' && beg[1] == 'I' && ld16(beg + 2) == 0x2B && ld16(beg + 4) == 8 && ld16(beg + 6) == 0 && ld64(beg + 8) == 16);
        stage = 1;
        return;
    }
    int i = (stage - 1) / 3, part = (stage - 1) % 3;
    if (i < NFRAMES && part == 0) {
        /* directory of frame i: where the previous directory's link (or the header) points, not
         * overlapping anything written before */
        BAD(n == 8 + 16 * 20 + 8 && (off & 7) == 0 && off >= prev_end);
        BAD(i == 0 ? off == first_ifd_expected : off == link_val);
        BAD(ld64(beg) == 16);
        int seen = 0;
        for (int k = 0; k < 16; ++k) {
            const uint8_t* t = beg + 8 + 20 * k;
            uint16_t tag = ld16(t);
            if (tag == 256) { BAD(ld32(t + 12) == F[i].v.shape.dims.width); seen |= 1; }
            if (tag == 257) { BAD(ld32(t + 12) == F[i].v.shape.dims.height); seen |= 2; }
            if (tag == 258) { BAD(ld16(t + 12) == 8 * bpt(F[i].v.shape.type)); seen |= 4; }
            if (tag == 339) {
                enum SampleType ty = F[i].v.shape.type;
                uint16_t want = (ty == SampleType_i8 || ty == SampleType_i16) ? 2 : (ty == SampleType_f32 ? 3 : 1);
                BAD(ld16(t + 12) == want); seen |= 8;
            }
            if (tag == 273) { strip_off = ld64(t + 12); seen |= 16; }
            if (tag == 279) { strip_len = ld64(t + 12); seen |= 32; }
            if (tag == 270) { d_cnt = ld64(t + 4); d_off = ld64(t + 12); seen |= 64; }
        }
        BAD(seen == 127);
        cur_ifd = off;
        link_pos = off + 8 + 16 * 20;
        link_val = ld64(beg + 8 + 16 * 20);
        prev_end = off + n;
        BAD(strip_len == PXB && strip_off >= prev_end);
        BAD(d_cnt == DESC + 1 && d_off >= strip_off + strip_len);
        BAD(link_val >= d_off + d_cnt && (link_val & 7) == 0); /* provisional link: past this frame's data */
    } else if (i < NFRAMES && part == 1) {
        /* strip: exactly where the directory says, the frame's pixel bytes */
        BAD(off == strip_off && n == strip_len);
        for (int j = 0; j < PXB; ++j) BAD(beg[j] == F[i].v.data[j]);
        prev_end = off + n;
    } else if (i < NFRAMES && part == 2) {
        /* string section: holds the description where the directory says, NUL terminated */
        BAD(off == d_off && n >= d_cnt && beg[d_cnt - 1] == 0);
        prev_end = off + n;
        ++frames_read;
    } else {
        /* terminator: a zero written over the last directory's link */
        BAD(off == link_pos && n == 8 && ld64(beg) == 0);
        terminated = 1;
    }
    ++stage;
}

int
main(void)
{
#if DEV == 2
    struct Storage* dev = side_by_side_tiff_init();
    static char meta_json[] = "{}";
#else
    struct Storage* dev = tiff_init();
    static char meta_user[] = "{\"a\":\"5%\"}";
#endif
    VASSUME(dev != 0);
    dev->device.driver = &drv;
    static struct StorageProperties p;
    static char uri_plain[] = "a", uri_file[] = "file://a";
#ifdef FILE_URI
    bool_t use_file_uri = FILE_URI;
#else
    bool_t use_file_uri = ND(bool_t);
#endif
    p.uri.str = use_file_uri ? uri_file : uri_plain;
    p.uri.nbytes = use_file_uri ? sizeof uri_file : sizeof uri_plain;
    p.uri.is_ref = 1;
    p.pixel_scale_um.x = 1;
    p.pixel_scale_um.y = 1;
#if DEV == 1 && defined(TIFF_META)
    /* user metadata: valid JSON that contains a per-cent sign */
    p.external_metadata_json.str = meta_user; p.external_metadata_json.nbytes = sizeof meta_user; p.external_metadata_json.is_ref = 1;
#endif
#if DEV == 2
#ifndef SBS_META
#define SBS_META 1
#endif
    /* metadata present or not: fixed per harness instance (a symbolic choice makes the open/closed
     * state of the descriptor symbolic and with it the writer's error paths, incl. its recursion) */
#ifdef SBS_FULL
#ifdef FOLDER
    folder_state = FOLDER; /* fixed per harness instance */
#else
    folder_state = ND(uint8_t); VASSUME(folder_state <= 2);
#endif
#endif
    if (SBS_META) { p.external_metadata_json.str = meta_json; p.external_metadata_json.nbytes = sizeof meta_json; p.external_metadata_json.is_ref = 1; }
#endif
#if MODE == 15
    VASSERT(storage_set(dev, &p) == Device_Ok, "set failed");
#if defined(DIRTY_START) && DEV == 1
    /* restart step: the device object is as SOME earlier acquisition left it (arbitrary write cursor,
     * arbitrary link position, arbitrary frame count, arbitrary string-section offset); the file
     * written by the acquisition that starts now must not depend on any of it */
    the_tiff.last_offset = ND(uint64_t);
    the_tiff.last_ifd_next_offset = ND(uint64_t);
    the_tiff.frame_count = ND(size_t);
    the_tiff.ss_offset = ND(int64_t);
#endif
    VASSERT(storage_start(dev) == Device_Ok, "start failed");
#ifdef FRAME_STEP
    /* per-frame induction step: the file already holds an ARBITRARY amount of data (any 64-bit end
     * offset, so also files beyond 4 GiB); the next frame's directory must start at the next
     * 8-byte boundary at or after that end, and everything else is laid out relative to it */
    {
        uint64_t base = ND(uint64_t);
        VASSUME(base >= 16 && base <= (((uint64_t)1) << 62));
        the_tiff.last_offset = base;
        the_tiff.last_ifd_next_offset = ND(uint64_t);
        VASSUME(the_tiff.last_ifd_next_offset + 8 <= base);
        the_tiff.frame_count = 1; /* not the first frame of the file */
        prev_end = base;
        first_ifd_expected = (base + 7) & ~(uint64_t)7;
        flen = base;
    }
#endif
    for (int i = 0; i < NFRAMES; ++i) {
        memset(&F[i], 0, sizeof F[i]);
        F[i].v.bytes_of_frame = sizeof(struct VideoFrame) + PXB;
        F[i].v.shape.dims.width = ND(uint32_t);
        F[i].v.shape.dims.height = ND(uint32_t);
        uint8_t ty = ND(uint8_t);
        VASSUME(ty < SampleTypeCount);
        F[i].v.shape.type = (enum SampleType)ty;
        F[i].v.frame_id = ND(uint64_t);
        F[i].v.hardware_frame_id = ND(uint64_t);
        F[i].v.timestamps.hardware = ND(uint64_t);
        F[i].v.timestamps.acq_thread = ND(uint64_t);
        for (int k = 0; k < PXB; ++k) F[i].v.data[k] = ND(uint8_t);
        memcpy(packet + (size_t)i * sizeof(union frame), &F[i], sizeof F[i]);
    }
#ifdef EXP_NO_APPEND
#elif GROUPING == 1
    /* one frame per append */
    for (int i = 0; i < NFRAMES; ++i)
        VASSERT(storage_append(dev, (struct VideoFrame*)(packet + (size_t)i * sizeof(union frame)), (struct VideoFrame*)(packet + (size_t)(i + 1) * sizeof(union frame))) == Device_Ok, "append failed");
#else
    /* all frames in one packet */
    VASSERT(storage_append(dev, (struct VideoFrame*)packet, (struct VideoFrame*)(packet + sizeof packet)) == Device_Ok, "append failed");
#endif
    VASSERT(storage_stop(dev) == Device_Ok, "stop failed");
    VASSERT(bad_ops == 0 && n_tif_create == 1 && n_close == n_create && !is_open, "C15/C16: the file is not closed at stop (descriptor not created/closed exactly once)");
    /* ---- verdict of the streaming reader ---- */
    VASSERT(rd_errors == 0, "C15: the file is not a valid little-endian BigTIFF carrying the frames (header, directory position/entries, width/height/bits/sample format, strip position/bytes, description position, links)");
    VASSERT(frames_read == NFRAMES && stage == 2 + 3 * NFRAMES, "C15: number of directories written differs from the number of frames appended");
    VASSERT(terminated, "C15: directory chain does not end in a zero link");
    VASSERT(prev_end <= flen && link_val <= flen + 8, "C15: structure outside the file");
    VASSERT(va_bad_conv == 0, "C15: a description format contains a conversion other than the ids/timestamps/metadata ones (user text interpreted as format: the description is not the promised JSON)");
    VASSERT(va_bad_key == 0, "C15: a value in the description is not attached to one of the keys frame_id, hardware_frame_id, runtime, hardware, metadata");
    for (int i = 0; i < NFRAMES; ++i) {
        VASSERT(va_have[i][0] == 1 && va_have[i][1] == 1 && va_have[i][2] == 1 && va_have[i][3] == 1, "C15: description lacks one of frame_id, hardware_frame_id, timestamps.runtime, timestamps.hardware");
        VASSERT(va_rec[i][0] == F[i].v.frame_id && va_rec[i][1] == F[i].v.hardware_frame_id && va_rec[i][2] == F[i].v.timestamps.acq_thread && va_rec[i][3] == F[i].v.timestamps.hardware,
                "C15: description does not carry the frame's ids and timestamps");
#if DEV == 1 && defined(TIFF_META)
        if (i == 0) {
            VASSERT(va_meta[0] != 0, "C15: the first frame's description does not carry the user's metadata");
            int same = 1;
            for (size_t c = 0; c < sizeof meta_user; ++c)
                if (va_meta[0][c] != meta_user[c]) same = 0;
            VASSERT(same, "C15: the metadata in the first frame's description is not the user's metadata");
        } else
            VASSERT(va_meta[i] == 0, "C15: metadata repeated on a later frame");
#else
        VASSERT(va_meta[i] == 0 || DEV == 2, "C15: metadata in a description although none was set");
#endif
    }
    VASSERT(va_calls == NFRAMES, "C15: number of descriptions differs from the number of frames");
    storage_close(dev);
    VASSERT(bad_ops == 0 && n_close == n_create && destroyed == 1, "C16: descriptor misuse at close");
    WITNESS_END();
#elif MODE == 16
    fail_create = ND(bool_t);
    fail_write_at = ND(int8_t);
    fail_write_from = ND(int8_t);
    VASSUME(fail_write_at >= -1 && fail_write_at <= 8 && fail_write_from >= -1 && fail_write_from <= 8);
    memset(&F[0], 0, sizeof F[0]);
    F[0].v.bytes_of_frame = sizeof(struct VideoFrame) + PXB;
    F[0].v.shape.dims.width = 8; F[0].v.shape.dims.height = 1; F[0].v.shape.type = SampleType_u8;
    memcpy(packet, &F[0], sizeof F[0]);
    int starts = 0, failed_appends = 0;
#ifdef LIFE_MASK
    /* which of the optional calls execute is fixed per harness instance (bit i = i-th optional call) */
    int opt_i = 0;
#define OPT if ((LIFE_MASK >> opt_i++) & 1)
#else
#define OPT if (ND(bool_t))
#endif
#define CHK VASSERT(bad_ops == 0, "C16: write/close on a descriptor the device does not own (not open, or already closed)")
#define DO_APPEND do { \
        int e0 = write_errors; enum DeviceState s0 = storage_get_state(dev); \
        enum DeviceStatusCode rc = storage_append(dev, (struct VideoFrame*)packet, (struct VideoFrame*)(packet + sizeof(union frame))); \
        if (s0 == DeviceState_Running && write_errors > e0) { \
            ++failed_appends; \
            VASSERT(rc != Device_Ok && storage_get_state(dev) != DeviceState_Running, "C16: the OS failed a write during append but the device still reports Running at the end of the append"); \
        } } while (0)
    OPT { storage_set(dev, &p); CHK; }
    OPT { if (storage_start(dev) == Device_Ok) ++starts; CHK; }
    OPT { DO_APPEND; CHK; }
#ifndef LIFE_SHORT
    OPT { DO_APPEND; CHK; }
#endif
    OPT { storage_stop(dev); CHK; }
#ifndef LIFE_SHORT
    OPT { storage_stop(dev); CHK; }
#endif
    storage_close(dev);
    VASSERT(destroyed == 1, "close did not destroy the device exactly once");
    CHK;
    VASSERT(!is_open && n_close == n_create, "C16: a descriptor the device opened was not closed exactly once");
#ifndef LIFE_MASK
    COVER(failed_appends >= 1);
    COVER(starts == 1 && n_write >= 4 && write_errors == 0);
#endif
    WITNESS_END();
#endif
    return 0;
}
