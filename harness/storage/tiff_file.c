/* C15 / C16 for the tiff storage device.  tiff.cpp is C++20: it is compiled by clang++-14 to LLVM
 * IR, translated to C by ir2c/ir2c.py (regenerated and differentially validated against the g++
 * build on every run, see ir2c/gen.py) and the generated C is what CBMC executes here, driven
 * through the REAL HAL storage_* wrappers.
 *
 * File layer: file_create / file_write / file_close are modelled at the platform API (the real
 * platform.c functions are covered by C14): a byte image of FSZ bytes + ownership bookkeeping.
 * vsnprintf (image description) returns a length DESC and records its variadic arguments.
 * Allocation stubs hand out fixed-capacity objects (sizes read back from the type-erased Tiff
 * object are not constant-propagated by symex).
 *
 * MODE 15: set; start; append N frames in packets per GROUPING; stop.  An independent reader
 *   walks the image: header II 2B 00 08 00 00, first IFD at 16, N directories chained by `next`,
 *   last next == 0, every IFD has 16 tags, width/height/bits/sample format of the i-th frame,
 *   strip inside the file with the frame's pixel bytes, description inside the file carrying the
 *   frame's ids and timestamps (recorded format arguments), structures disjoint and in order.
 * MODE 16: life-cycle template set? start? append? append? stop? stop? close with a failing
 *   file_create and one-shot / persistent file_write failures at symbolic call indices.
 */
#include "verif.h"
#include <stdlib.h>
#include <string.h>
#include <stdarg.h>
#include "device/hal/device.manager.h"
#include "device/hal/storage.h"
#include "device/kit/storage.h"
#include "device/kit/driver.h"
#include "device/props/storage.h"
#include "device/props/components.h"
#include "platform.h"

struct Storage* tiff_init(void);

#ifndef NFRAMES
#define NFRAMES 1
#endif
#ifndef DESC
#define DESC 12 /* length vsnprintf reports for every description (> 7: goes to the string section) */
#endif
#define PXB 8   /* image bytes per frame */
#define FSZ (16 + NFRAMES * (8 + 16 * 20 + 8 + PXB + 8 + ((DESC + 1 + 7) / 8) * 8 + 16) + 64)

/* ---- C++ runtime / libc stubs used by the translated code ---- */
void* _Znwm(unsigned long n) { VASSUME(n <= 512); void* p = malloc(512); VASSUME(p != 0); return p; }
void _ZdlPv(void* p) { free(p); }
void _ZdlPvm(void* p, unsigned long n) { free(p); }
void* __cxa_begin_catch(void* p) { VASSUME(0); return 0; }
void __cxa_end_catch(void) {}
void _ZSt9terminatev(void) { VASSUME(0); }
void _ZSt17__throw_bad_allocv(void) { VASSUME(0); }
void _ZSt20__throw_length_errorPKc(const char* s) { VASSUME(0); }
void _ZSt19__throw_logic_errorPKc(const char* s) { VASSUME(0); }
#ifndef VERIF_REPLAY
void*
realloc(void* p, size_t n)
{
    VASSUME(n <= 64);
    void* q = malloc(64);
    VASSUME(q != 0);
    if (p) free(p);
    return q;
}
#endif

/* ---- file model ---- */
static uint8_t img[FSZ];
static uint64_t flen;
static int is_open, n_close, n_create, n_write, bad_ops;
static int fail_create, fail_write_at = -1, fail_write_from = -1, write_errors;
int file_is_writable(const char* f, size_t n) { return 1; }
int
file_create(struct file* f, const char* name, size_t n)
{
    if (fail_create) return 0;
    if (is_open) ++bad_ops; /* a second descriptor while one is open: the first is lost */
    f->fid = 5;
    is_open = 1;
    ++n_create;
    flen = 0;
    return 1;
}
void
file_close(struct file* f)
{
    if (!is_open || f->fid != 5) { ++bad_ops; return; }
    is_open = 0;
    ++n_close;
}
int
file_write(const struct file* f, uint64_t off, const uint8_t* beg, const uint8_t* end)
{
    int idx = n_write++;
    if (!is_open || f->fid != 5) { ++bad_ops; return 0; } /* write on a descriptor the device does not own (any more) */
    if (idx == fail_write_at || (fail_write_from >= 0 && idx >= fail_write_from)) { ++write_errors; return 0; }
    size_t n = (size_t)(end - beg);
    VASSERT(off + n <= FSZ, "harness bound: file image too small");
    for (size_t k = 0; k < FSZ; ++k)
        if (k < n) img[off + k] = beg[k];
    if (off + n > flen) flen = off + n;
    return 1;
}
/* ---- vsnprintf model ---- */
static unsigned long long va_rec[NFRAMES + 1][4];
static int va_calls;
int
vsnprintf(char* buf, size_t n, const char* fmt, va_list ap)
{
    if (buf) {
        /* second call (with a buffer): record the arguments of this description */
        int k = va_calls < NFRAMES ? va_calls : NFRAMES;
        for (int i = 0; i < 4; ++i) va_rec[k][i] = va_arg(ap, unsigned long long);
        ++va_calls;
        for (size_t i = 0; i < DESC + 1; ++i)
            if (i < n) buf[i] = (i + 1 < n) ? 'x' : 0;
    }
    return DESC;
}
void aq_logger(int is_error, const char* file, int line, const char* function, const char* fmt, ...) {}
const char* device_kind_as_string(enum DeviceKind k) { return ""; }
const char* device_state_as_string(enum DeviceState s) { return ""; }

static int destroyed;
static enum DeviceStatusCode
drv_close(struct Driver* d, struct Device* in)
{
    struct Storage* w = (struct Storage*)((char*)in - offsetof(struct Storage, device));
    w->destroy(w);
    ++destroyed;
    return Device_Ok;
}
static struct Driver drv = { .close = drv_close };
struct Driver* device_manager_get_driver(const struct DeviceManager* self, const struct DeviceIdentifier* identifier) { return &drv; }

static uint64_t rd64(uint64_t o) { uint64_t v = 0; for (int k = 7; k >= 0; --k) v = (v << 8) | img[o + k]; return v; }
static uint32_t rd32(uint64_t o) { return (uint32_t)img[o] | ((uint32_t)img[o + 1] << 8) | ((uint32_t)img[o + 2] << 16) | ((uint32_t)img[o + 3] << 24); }
static uint16_t rd16(uint64_t o) { return (uint16_t)(img[o] | (img[o + 1] << 8)); }

union frame { struct VideoFrame v; uint8_t raw[sizeof(struct VideoFrame) + PXB]; };
static union frame F[NFRAMES];
static uint8_t packet[NFRAMES * sizeof(union frame)] __attribute__((aligned(8)));

static size_t
bpt(enum SampleType t)
{
    return (t == SampleType_u8 || t == SampleType_i8) ? 1 : (t == SampleType_f32 ? 4 : 2);
}

int
main(void)
{
    struct Storage* dev = tiff_init();
    VASSUME(dev != 0);
    dev->device.driver = &drv;
    static struct StorageProperties p;
    static char uri_plain[] = "a", uri_file[] = "file://a";
#ifdef FILE_URI
    bool_t use_file_uri = FILE_URI;
#else
    bool_t use_file_uri = ND(bool_t);
#endif
    p.uri.str = use_file_uri ? uri_file : uri_plain;
    p.uri.nbytes = use_file_uri ? sizeof uri_file : sizeof uri_plain;
    p.uri.is_ref = 1;
    p.pixel_scale_um.x = 1;
    p.pixel_scale_um.y = 1;
#if MODE == 15
    VASSERT(storage_set(dev, &p) == Device_Ok, "set failed");
    VASSERT(storage_start(dev) == Device_Ok, "start failed");
    for (int i = 0; i < NFRAMES; ++i) {
        memset(&F[i], 0, sizeof F[i]);
        F[i].v.bytes_of_frame = sizeof(struct VideoFrame) + PXB;
        F[i].v.shape.dims.width = ND(uint32_t);
        F[i].v.shape.dims.height = ND(uint32_t);
        uint8_t ty = ND(uint8_t);
        VASSUME(ty < SampleTypeCount);
        F[i].v.shape.type = (enum SampleType)ty;
        F[i].v.frame_id = ND(uint64_t);
        F[i].v.hardware_frame_id = ND(uint64_t);
        F[i].v.timestamps.hardware = ND(uint64_t);
        F[i].v.timestamps.acq_thread = ND(uint64_t);
        for (int k = 0; k < PXB; ++k) F[i].v.data[k] = ND(uint8_t);
        memcpy(packet + (size_t)i * sizeof(union frame), &F[i], sizeof F[i]);
    }
#if GROUPING == 1
    /* one frame per append */
    for (int i = 0; i < NFRAMES; ++i)
        VASSERT(storage_append(dev, (struct VideoFrame*)(packet + (size_t)i * sizeof(union frame)), (struct VideoFrame*)(packet + (size_t)(i + 1) * sizeof(union frame))) == Device_Ok, "append failed");
#else
    /* all frames in one packet */
    VASSERT(storage_append(dev, (struct VideoFrame*)packet, (struct VideoFrame*)(packet + sizeof packet)) == Device_Ok, "append failed");
#endif
    VASSERT(storage_stop(dev) == Device_Ok, "stop failed");
    VASSERT(bad_ops == 0 && n_create == 1 && n_close == 1 && !is_open, "C16: descriptor not created/closed exactly once");
    /* ---- independent reader ---- */
    VASSERT(img[0] == 'I' && img[1] == 'I' && rd16(2) == 0x2B && rd16(4) == 8 && rd16(6) == 0, "C15: not a little-endian BigTIFF header");
    uint64_t ifd = rd64(8);
    VASSERT(ifd == 16, "C15: first directory not right after the header");
    uint64_t prev_end = 16;
    for (int i = 0; i < NFRAMES; ++i) {
        VASSERT(ifd >= prev_end && (ifd & 7) == 0 && ifd + 8 + 16 * 20 + 8 <= flen, "C15: directory outside the file / overlapping the previous frame's data");
        VASSERT(rd64(ifd) == 16, "C15: directory does not have 16 entries");
        uint64_t next = rd64(ifd + 8 + 16 * 20);
        uint64_t dir_end = ifd + 8 + 16 * 20 + 8;
        int seen = 0;
        uint64_t strip_off = 0, strip_len = 0, d_off = 0, d_cnt = 0;
        for (int k = 0; k < 16; ++k) {
            uint64_t t = ifd + 8 + 20 * (uint64_t)k;
            uint16_t tag = rd16(t);
            if (tag == 256) { VASSERT(rd32(t + 12) == F[i].v.shape.dims.width, "C15: ImageWidth is not the frame's width"); seen |= 1; }
            if (tag == 257) { VASSERT(rd32(t + 12) == F[i].v.shape.dims.height, "C15: ImageLength is not the frame's height"); seen |= 2; }
            if (tag == 258) { VASSERT(rd16(t + 12) == 8 * bpt(F[i].v.shape.type), "C15: BitsPerSample is not 8 x bytes of the sample type"); seen |= 4; }
            if (tag == 339) {
                enum SampleType ty = F[i].v.shape.type;
                uint16_t want = (ty == SampleType_i8 || ty == SampleType_i16) ? 2 : (ty == SampleType_f32 ? 3 : 1);
                VASSERT(rd16(t + 12) == want, "C15: SampleFormat does not match the sample type"); seen |= 8;
            }
            if (tag == 273) { strip_off = rd64(t + 12); seen |= 16; }
            if (tag == 279) { strip_len = rd64(t + 12); seen |= 32; }
            if (tag == 270) { d_cnt = rd64(t + 4); d_off = rd64(t + 12); seen |= 64; }
        }
        VASSERT(seen == 127, "C15: a required tag is missing");
        VASSERT(strip_len == PXB && strip_off >= dir_end && strip_off + strip_len <= flen, "C15: strip outside the file or overlapping the directory");
        for (int j = 0; j < PXB; ++j) VASSERT(img[strip_off + j] == F[i].v.data[j], "C15: strip bytes are not the frame's pixel bytes");
        VASSERT(d_cnt == DESC + 1 && d_off >= strip_off + strip_len && d_off + d_cnt <= flen && img[d_off + d_cnt - 1] == 0, "C15: description outside the file / overlapping the strip / not terminated");
        VASSERT(va_rec[i][0] == F[i].v.frame_id && va_rec[i][1] == F[i].v.hardware_frame_id && va_rec[i][2] == F[i].v.timestamps.acq_thread && va_rec[i][3] == F[i].v.timestamps.hardware,
                "C15: description does not carry the frame's ids and timestamps");
        prev_end = d_off + d_cnt;
        if (i + 1 < NFRAMES) { VASSERT(next >= prev_end && next + 8 <= flen, "C15: next-directory link outside the file or into this frame's data"); ifd = next; }
        else VASSERT(next == 0, "C15: directory chain does not end in a zero link");
    }
    VASSERT(va_calls == NFRAMES, "C15: number of descriptions differs from the number of frames");
    storage_close(dev);
    VASSERT(bad_ops == 0 && n_close == 1 && destroyed == 1, "C16: descriptor misuse at close");
    WITNESS_END();
#elif MODE == 16
    fail_create = ND(bool_t);
    fail_write_at = ND(int8_t);
    fail_write_from = ND(int8_t);
    VASSUME(fail_write_at >= -1 && fail_write_at <= 8 && fail_write_from >= -1 && fail_write_from <= 8);
    memset(&F[0], 0, sizeof F[0]);
    F[0].v.bytes_of_frame = sizeof(struct VideoFrame) + PXB;
    F[0].v.shape.dims.width = 8; F[0].v.shape.dims.height = 1; F[0].v.shape.type = SampleType_u8;
    memcpy(packet, &F[0], sizeof F[0]);
    int starts = 0, failed_appends = 0;
#define OPT if (ND(bool_t))
#define CHK VASSERT(bad_ops == 0, "C16: write/close on a descriptor the device does not own (not open, or already closed)")
#define DO_APPEND do { \
        int e0 = write_errors; enum DeviceState s0 = storage_get_state(dev); \
        enum DeviceStatusCode rc = storage_append(dev, (struct VideoFrame*)packet, (struct VideoFrame*)(packet + sizeof(union frame))); \
        if (s0 == DeviceState_Running && write_errors > e0) { \
            ++failed_appends; \
            VASSERT(rc != Device_Ok && storage_get_state(dev) != DeviceState_Running, "C16: the OS failed a write during append but the device still reports Running at the end of the append"); \
        } } while (0)
    OPT { storage_set(dev, &p); CHK; }
    OPT { if (storage_start(dev) == Device_Ok) ++starts; CHK; }
    OPT { DO_APPEND; CHK; }
    OPT { DO_APPEND; CHK; }
    OPT { storage_stop(dev); CHK; }
    OPT { storage_stop(dev); CHK; }
    storage_close(dev);
    VASSERT(destroyed == 1, "close did not destroy the device exactly once");
    CHK;
    VASSERT(!is_open && n_close == n_create, "C16: a descriptor the device opened was not closed exactly once");
    COVER(failed_appends >= 1);
    COVER(starts == 1 && n_write >= 4 && write_errors == 0);
    WITNESS_END();
#endif
    return 0;
}
