/* C14 / C16 for the raw (and trash) storage device, through the HAL storage_* wrappers, with the
 * REAL linux/platform.c file functions running on the syscall model env/fs_model.c.  raw.c is
 * #included so the harness can set/read struct Raw (offset, file).
 *
 * MODE 141 (C14, append step): device Running with an open descriptor and an ARBITRARY 64-bit
 *   Raw.offset; one storage_append of n <= PMAX arbitrary bytes with arbitrary short writes.
 *   Checked at every accepted pwrite: own descriptor, file offset == offset0 + bytes done so far,
 *   buffer == packet + done (so the bytes are the packet's, in order, no hole, no repeat).
 *   After: done == n and Raw.offset == offset0 + n, or file_write gave up (3 zero-byte writes)
 *   and the device left Running.
 * MODE 142 (C14, acquisition skeleton): CYCLES x { set(uri); start; <= NAPP appends; stop } with
 *   URI spellings a | file://a | b | file://b (other path per cycle): every write of an
 *   acquisition goes to the file named by its URI (prefix stripped) at offset == number of bytes
 *   appended earlier IN THIS acquisition (so each file starts at 0), descriptor closed at stop.
 *   141 + 142 => file == concatenation of the acquisition's packets.
 * MODE 16 (C16): symbolic life-cycle history of LH calls from {set,start,append,stop,close}
 *   with open/pwrite faults (one-shot or persistent, symbolic index): only owned descriptors
 *   are written/closed, each closed exactly once, a failing append leaves the running state.
 * DEV 1 raw, 2 trash.
 */
#include "verif.h"
#include <stdlib.h>
#include <string.h>
#include "fs_model.h"
#include "device/hal/device.manager.h"
#include "device/hal/storage.h"
#include "device/kit/storage.h"
#include "device/kit/driver.h"
#include "device/props/components.h"

#if DEV == 1
#include "raw.c"
#else
struct Storage* trash_init(void);
#endif

#ifndef CYCLES
#define CYCLES 2
#endif
#ifndef NAPP
#define NAPP 2
#endif
#ifndef PMAX
#define PMAX 3
#endif
#ifndef LH
#define LH 5
#endif

/* minimal driver: close = destroy, like basics.driver.c */
static int destroyed;
static enum DeviceStatusCode
drv_close(struct Driver* d, struct Device* in)
{
    struct Storage* w = (struct Storage*)((char*)in - offsetof(struct Storage, device));
    w->destroy(w);
    ++destroyed;
    return Device_Ok;
}
static struct Driver drv = { .close = drv_close };
struct Driver*
device_manager_get_driver(const struct DeviceManager* self, const struct DeviceIdentifier* identifier)
{
    return &drv;
}

static const char* const URIS[4] = { "a", "file://a", "b", "file://b" };
static const size_t URILEN[4] = { 2, 9, 2, 9 };

static struct StorageProperties props;
static void
set_uri(int k)
{
    /* a StorageProperties that refers to caller memory (is_ref), as acquire_configure passes it */
    props.uri.str = (char*)URIS[k];
    props.uri.nbytes = URILEN[k];
    props.uri.is_ref = 1;
}

#if MODE == 143
#define FR_MAX 2
#define FR_IMG 9 /* image bytes 0..9: every residue modulo 8 */
#define FR_SLOT (sizeof(struct VideoFrame) + 16)
static uint8_t packet[FR_MAX * FR_SLOT] __attribute__((aligned(8)));
#else
static uint8_t packet[(PMAX > (int)sizeof(struct VideoFrame)) ? PMAX : sizeof(struct VideoFrame)] __attribute__((aligned(8)));
#endif

/* ---- write observer -------------------------------------------------------------------- */
static int obs_on, obs_file, obs_bad;
static uint64_t obs_base;   /* file offset at which the current packet must start */
static size_t obs_done;     /* bytes of the current packet accepted so far */
static int obs_writes;
void
verif_fs_pwrite_hook(int fd, int file, const uint8_t* buf, size_t n, uint64_t off, size_t r)
{
    if (!obs_on) return;
    ++obs_writes;
    VASSERT(file == obs_file, "C14: write went to a file other than the one named by the URI");
    VASSERT(off == obs_base + obs_done, "C14: write offset is not the end of what this acquisition has written so far (hole, overlap or stale offset)");
    VASSERT(buf == packet + obs_done, "C14: bytes written are not the next bytes of the appended packet");
    VASSERT(n <= sizeof(packet) - obs_done, "C14: write extends past the appended packet");
    obs_done += r;
}

int
main(void)
{
    fs_reset();
#if DEV == 1
    struct Storage* dev = raw_init();
#else
    struct Storage* dev = trash_init();
#endif
    VASSUME(dev != 0);
    dev->device.driver = &drv;

#if MODE == 141
    fs_short_writes_enabled = 1;
    struct Raw* raw = containerof(dev, struct Raw, writer);
    set_uri(0);
    VASSERT(storage_set(dev, &props) == Device_Ok, "set failed for a writable path");
    VASSERT(storage_start(dev) == Device_Ok, "start failed although open succeeds");
    uint64_t off0 = ND(uint64_t);
    VASSUME(off0 <= (((uint64_t)1) << 62)); /* files below 4 EiB */
    /* one pwrite call of this append may fail outright (-1 with an arbitrary errno, EINTR included) or
     * write nothing: the append then either fails (and the device leaves Running) or, if it reports
     * success, every byte still went to the right place (checked at each accepted pwrite) */
    fs_faults_enabled = 1;
    fs_fail_open_at = -1; fs_fail_flock_at = -1; fs_fail_pwrite_from = -1;
    fs_fail_pwrite_at = ND(int8_t);
    VASSUME(fs_fail_pwrite_at >= -1 && fs_fail_pwrite_at <= 5);
    fs_fail_errno = ND(uint8_t);
    VASSUME(fs_fail_errno == 4 || fs_fail_errno == 5 || fs_fail_errno == 11 || fs_fail_errno == 28);
    raw->offset = off0;
    size_t n = ND(uint8_t);
    VASSUME(n <= PMAX);
    for (size_t i = 0; i < PMAX; ++i) packet[i] = ND(uint8_t);
    obs_on = 1; obs_file = 0; obs_base = off0; obs_done = 0;
    enum DeviceStatusCode rc = storage_append(dev, (struct VideoFrame*)packet, (struct VideoFrame*)(packet + n));
    if (rc == Device_Ok) {
        VASSERT(obs_done == n, "C14: append reported success but not all bytes of the packet were written");
        VASSERT(raw->offset == off0 + n, "C14: running offset not advanced by the packet size");
        VASSERT(storage_get_state(dev) == DeviceState_Running, "state after a successful append");
    } else {
        VASSERT(storage_get_state(dev) != DeviceState_Running, "C16: append failed but device still Running");
        VASSERT(fs_open_count() == 0, "C16: descriptor left open after a failed append stopped the device");
    }
    VASSERT(fs_bad_fd_ops == 0, "C16: operation on a descriptor the device does not own");
    COVER(rc == Device_Ok && fs_short_writes >= 2 && n == PMAX);
    COVER(rc != Device_Ok);
    COVER(rc == Device_Ok && n == 0);
    obs_on = 0;
    storage_close(dev);
    VASSERT(fs_bad_fd_ops == 0 && fs_open_count() == 0, "C16: descriptor misuse at close");
    WITNESS_END();
#elif MODE == 143
    /* append step on a packet of WHOLE FRAMES (1..FR_MAX frames, image bytes 0..FR_IMG each, the
     * size field rounded up to 8 as the runtime writes it, shape consistent with the image bytes):
     * whatever the device does with the frame structure, the file must receive every byte of the
     * packet (headers, pixels AND the alignment padding the size fields account for), in order */
    fs_short_writes_enabled = 1;
    fs_short_writes_max = 4; /* bound: at most 4 short (incl. zero-byte) results per append */
    struct Raw* raw = containerof(dev, struct Raw, writer);
    set_uri(0);
    VASSERT(storage_set(dev, &props) == Device_Ok, "set failed for a writable path");
    VASSERT(storage_start(dev) == Device_Ok, "start failed although open succeeds");
    uint64_t off0 = ND(uint64_t);
    VASSUME(off0 <= (((uint64_t)1) << 62));
    /* one pwrite call of this append may fail outright (-1 with an arbitrary errno, EINTR included) or
     * write nothing: the append then either fails (and the device leaves Running) or, if it reports
     * success, every byte still went to the right place (checked at each accepted pwrite) */
    fs_faults_enabled = 1;
    fs_fail_open_at = -1; fs_fail_flock_at = -1; fs_fail_pwrite_from = -1;
    fs_fail_pwrite_at = ND(int8_t);
    VASSUME(fs_fail_pwrite_at >= -1 && fs_fail_pwrite_at <= 5);
    fs_fail_errno = ND(uint8_t);
    VASSUME(fs_fail_errno == 4 || fs_fail_errno == 5 || fs_fail_errno == 11 || fs_fail_errno == 28);
    raw->offset = off0;
    int nf = ND(uint8_t);
    VASSUME(nf >= 1 && nf <= FR_MAX);
    size_t n = 0;
    for (int i = 0; i < FR_MAX; ++i) {
        size_t img = ND(uint8_t);
        VASSUME(img <= FR_IMG);
        if (i < nf) {
            struct VideoFrame* f = (struct VideoFrame*)(packet + n);
            f->bytes_of_frame = 8 * ((sizeof(struct VideoFrame) + img + 7) / 8);
            f->frame_id = (uint64_t)i;
            f->shape = (struct ImageShape){ .dims = { .channels = 1, .width = (uint32_t)img, .height = 1, .planes = 1 },
                                            .strides = { .channels = 1, .width = 1, .height = (int64_t)img, .planes = (int64_t)img }, .type = SampleType_u8 };
            n += f->bytes_of_frame;
        }
    }
    obs_on = 1; obs_file = 0; obs_base = off0; obs_done = 0;
    enum DeviceStatusCode rc = storage_append(dev, (struct VideoFrame*)packet, (struct VideoFrame*)(packet + n));
    if (rc == Device_Ok) {
        VASSERT(obs_done == n, "C14: append reported success but the file did not receive every byte of the packet (frames incl. their alignment padding)");
        VASSERT(raw->offset == off0 + n, "C14: running offset not advanced by the packet size");
        VASSERT(storage_get_state(dev) == DeviceState_Running, "state after a successful append");
    } else {
        VASSERT(storage_get_state(dev) != DeviceState_Running, "C16: append failed but device still Running");
    }
    VASSERT(fs_bad_fd_ops == 0, "C16: operation on a descriptor the device does not own");
    COVER(rc == Device_Ok && nf == 2 && (n & 15) == 8);
    COVER(rc != Device_Ok);
    obs_on = 0;
    storage_close(dev);
    WITNESS_END();
#elif MODE == 142
    fs_short_writes_enabled = 0; /* short writes are the subject of MODE 141 */
    int first_file = -1;
    for (int c = 0; c < CYCLES; ++c) {
        uint8_t k = ND(uint8_t);
        VASSUME(k < 4);
        int file = k / 2;
        if (c == 0) first_file = file;
        else VASSUME(file != first_file); /* earlier acquisitions went to OTHER paths */
        set_uri(k);
        VASSERT(storage_set(dev, &props) == Device_Ok, "set failed for a writable path");
        VASSERT(storage_start(dev) == Device_Ok, "start failed although open succeeds");
        VASSERT(fs_open_count() == 1, "C14/C16: start did not leave exactly one descriptor open (the previous acquisition's file must be closed, the new one opened)");
        uint64_t appended = 0;
        for (int a = 0; a < NAPP; ++a) {
            size_t n = ND(uint8_t);
            VASSUME(n <= PMAX);
            obs_on = 1; obs_file = file; obs_base = appended; obs_done = 0;
            VASSERT(storage_append(dev, (struct VideoFrame*)packet, (struct VideoFrame*)(packet + n)) == Device_Ok, "append failed without any OS failure");
            VASSERT(obs_done == n, "C14: packet not completely written");
            obs_on = 0;
            appended += n;
        }
        /* the client may re-configure and start again WITHOUT stopping first (set while running leaves
         * the HAL Armed, so a stop in between would not reach the device either): the next acquisition
         * must still go to its own file from offset 0 */
        bool_t skip_stop = (c + 1 < CYCLES) ? ND(bool_t) : 0;
        if (!skip_stop) {
            VASSERT(storage_stop(dev) == Device_Ok, "stop failed");
            VASSERT(fs_open_count() == 0, "C16: descriptor left open after stop");
        }
        VASSERT(fs_files[file].exists, "C14: file not created");
        VASSERT(fs_bad_fd_ops == 0, "C16: operation on a descriptor the device does not own");
        COVER(c == 1 && appended > 0);
        COVER(c == 0 && skip_stop);
    }
    storage_close(dev);
    VASSERT(destroyed == 1, "close did not destroy the device");
    VASSERT(fs_bad_fd_ops == 0, "C16: close/write on a descriptor the device does not own (at destroy)");
    WITNESS_END();
#elif MODE == 16
    fs_faults_enabled = 1;
    fs_short_writes_enabled = 0;
    fs_fail_open_at = ND(int8_t);
    fs_fail_pwrite_at = ND(int8_t);
    fs_fail_pwrite_from = ND(int8_t);
    fs_fail_flock_at = ND(int8_t);
    VASSUME(fs_fail_flock_at >= -1 && fs_fail_flock_at <= 2);
    VASSUME(fs_fail_open_at >= -1 && fs_fail_open_at <= 4);
    VASSUME(fs_fail_pwrite_at >= -1 && fs_fail_pwrite_at <= 6);
    VASSUME(fs_fail_pwrite_from >= -1 && fs_fail_pwrite_from <= 6);
    int closed = 0, starts = 0, appends_failed = 0;
    /* fixed order of OPTIONAL calls (each executes or is skipped, symbolically):
     *   set? start? append? append? stop? stop? set? start? append? stop? close
     * covers open/close without start, close while running, stop twice, repeated start/stop,
     * start without set, append when not running */
#define OPT if (ND(bool_t))
#define DO_SET do { uint8_t k = ND(uint8_t); VASSUME(k < 4); set_uri(k); storage_set(dev, &props); } while (0)
#define DO_START do { if (storage_start(dev) == Device_Ok) ++starts; } while (0)
#define DO_STOP storage_stop(dev)
#if DEV == 1
#define PKT_N(n) size_t n = ND(uint8_t); VASSUME(n <= PMAX && n >= 1)
#else
#define PKT_N(n) size_t n = sizeof(struct VideoFrame); ((struct VideoFrame*)packet)->bytes_of_frame = n
#endif
#define DO_APPEND do { \
        PKT_N(n_); \
        int errs0 = fs_write_errors; \
        enum DeviceState st0 = storage_get_state(dev); \
        enum DeviceStatusCode rc = storage_append(dev, (struct VideoFrame*)packet, (struct VideoFrame*)(packet + n_)); \
        if (st0 == DeviceState_Running && fs_write_errors > errs0 && rc != Device_Ok) ++appends_failed; \
        if (rc != Device_Ok && st0 == DeviceState_Running) \
            VASSERT(storage_get_state(dev) != DeviceState_Running, "C16: failing append left the device Running"); \
        if (DEV == 1 && st0 == DeviceState_Running && fs_write_errors >= errs0 + 3) \
            VASSERT(rc != Device_Ok, "C16: the OS refused the write three times but append reported success"); \
    } while (0)
#define CHK do { \
        VASSERT(fs_bad_fd_ops == 0, "C16: write/close on a descriptor the device did not open or already closed"); \
        VASSERT(fs_open_count() <= 1, "C16: more than one descriptor open for one device"); \
    } while (0)
    OPT { DO_SET; CHK; }
    OPT { DO_START; CHK; }
    OPT { DO_APPEND; CHK; }
    OPT { DO_APPEND; CHK; }
    OPT { DO_STOP; CHK; }
    OPT { DO_STOP; CHK; }
#if LH >= 2
    OPT { DO_SET; CHK; }
    OPT { DO_START; CHK; }
    OPT { DO_APPEND; CHK; }
    OPT { DO_STOP; CHK; }
#endif
    if (!closed) storage_close(dev);
    VASSERT(destroyed == 1, "close did not destroy the device exactly once");
    VASSERT(fs_bad_fd_ops == 0, "C16: write/close on a descriptor the device did not open or already closed (at close)");
    VASSERT(fs_open_count() == 0, "C16: descriptor still open after the device was closed");
#if DEV == 1
#if LH >= 2
    COVER(starts >= 2);
#endif
    COVER(appends_failed >= 1);
    COVER(starts == 0 && fs_opens == 0);
#endif
    WITNESS_END();
#endif
    return 0;
}
