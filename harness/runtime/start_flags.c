/* G-API leaf: the start functions establish the state the worker threads assume, whatever the
 * previous acquisition left behind (the cross-thread stop flags can be raised by a peer AFTER a
 * worker has exited, e.g. the source raising sink.is_stopping on a sink that died on a storage
 * fault).  Pre-state: is_stopping / is_running arbitrary; after a successful start:
 * is_stopping == 0, is_running == 1, device started, (sink) writes accepted.
 * WHICH 1 sink, 2 source, 3 filter. */
#include "verif.h"
#include "plat_seq.h"
#include <stdlib.h>
#include <string.h>
#include "mock_devices.h"
#if WHICH == 1
#include "sink.c"
#elif WHICH == 2
#include "device/hal/camera.h"
#include "source.c"
#else
#include "filter.c"
#endif
void verif_on_lock_acquire(struct lock* l) {}
void verif_on_lock_release(struct lock* l) {}
void verif_on_notify(struct condition_variable* cv) {}
void verif_on_wait(struct condition_variable* cv, struct lock* l) { VASSUME(0); }
static int created;
void thread_init(struct thread* t) { t->is_live_ = 0; }
uint8_t thread_create(struct thread* t, void (*p)(void*), void* a) { ++created; return 1; }
void thread_join(struct thread* t) {}
void event_init(struct event* e) { e->state_ = 0; }
void event_destroy(struct event* e) {}
/* referenced by the thread bodies that are compiled in but never run here (needed by the native replay link) */
uint64_t clock_tic(struct clock* c) { return 0; }
void clock_init(struct clock* c) { c->origin = 0; }
void clock_shift_ms(struct clock* c, double ms) {}
int8_t clock_cmp(struct clock* c, uint64_t t) { return 0; }
int64_t clock_toc(struct clock* c) { return 0; }
double clock_toc_ms(struct clock* c) { return 0; }
void clock_sleep_ms(struct clock* c, float ms) {}
void event_notify_all(struct event* e) { e->state_ = 1; }
static void cb_sink(const struct video_sink_s* s) {}
int
main(void)
{
    mock_reset();
    struct DeviceManager dm = { 0 };
    struct DeviceIdentifier id;
    memset(&id, 0, sizeof id);
#if WHICH == 1
    static struct video_sink_s snk;
    static struct StorageProperties sp;
    id.kind = DeviceKind_Storage; id.device_id = NCAM;
    video_sink_init(&snk, 0, 256, cb_sink);
    VASSERT(video_sink_configure(&snk, &dm, &id, &sp, 0) == Device_Ok, "configure");
    snk.is_stopping = ND(uint8_t); snk.is_running = ND(uint8_t);
    snk.in.is_accepting_writes = ND(uint8_t) & 1;
    VASSERT(video_sink_start(&snk) == Device_Ok, "sink start failed on an armed storage");
    VASSERT(snk.is_stopping == 0, "C07/C09: sink started with a stale stop request (is_stopping not cleared by start)");
    VASSERT(snk.is_running == 1, "C08: sink not marked running by start");
    VASSERT(snk.in.is_accepting_writes == 1, "C07: writes not accepted after sink start");
    VASSERT(STO[0].started == 1 && created == 1, "storage not started / thread not created");
#elif WHICH == 2
    static struct video_source_s src;
    static struct channel ring;
    struct CameraProperties cp;
    memset(&cp, 0, sizeof cp);
    id.kind = DeviceKind_Camera;
    video_source_init(&src, 0, 1, &ring, 0, 0, 0, 0);
    VASSERT(video_source_configure(&src, &dm, &id, &cp, 3, 0) == Device_Ok, "configure");
    src.is_stopping = ND(uint8_t); src.is_running = ND(uint8_t);
    VASSERT(video_source_start(&src) == Device_Ok, "source start failed on an armed camera");
    VASSERT(src.is_stopping == 0, "C07/C09: source started with a stale stop request (is_stopping not cleared by start)");
    VASSERT(src.is_running == 1, "C08: source not marked running by start");
    VASSERT(CAM[0].started == 1 && created == 1, "camera not started / thread not created");
#else
    static struct video_filter_s flt;
    static struct channel out;
    video_filter_init(&flt, 0, 256, &out);
    flt.is_stopping = ND(uint8_t); flt.is_running = ND(uint8_t);
    VASSERT(video_filter_start(&flt) == Device_Ok, "filter start failed");
    VASSERT(flt.is_stopping == 0, "C07/C10: filter started with a stale stop request");
    VASSERT(flt.is_running == 1 && created == 1, "filter not marked running / thread not created");
#endif
    WITNESS_END();
    return 0;
}
