/* Whole-runtime harnesses: the REAL acquire.c + source.c + sink.c + filter.c + channel.c + HAL
 * camera.c/storage.c/driver.c over the recording mock driver (mock_devices.h), the C stub of
 * the device manager and the coarse thread model (env/plat_coarse.c): each worker body runs
 * to completion at thread_join, or earlier where the harness says so ("source early").
 * Ring capacity is interposed at build level: acquire.c is #included here with
 * video_sink_init/video_filter_init redirected to wrappers that pass RING_BYTES instead of 1 GiB.
 *
 * PROG 1 (C06, C07d, C04 cross-check): one stream, ACQS acquisitions of N frames each
 *   (N symbolic <= NMAX), each: [configure] start [source early] client{map,unmap(k frames)}*
 *   (stop | abort) client{map}; the client may first map in a later acquisition.
 * PROG 2 (C08): two streams, symbolic optional calls configure(A) start [start] stop|abort
 *   configure(B: other devices) start stop [get_state] shutdown; protocol monitors.
 * PROG 3 (C09): one stream, camera fault at frame f or storage fault at append g (symbolic),
 *   stop or abort, then a fault-free acquisition.
 * PROG 4 (C08): one stream; configure(A) [start stop]; configure(B) during which the driver's
 *   open of the camera or of the storage device FAILS (which one is symbolic); [get_configuration];
 *   configure(A | B) without fault; start stop; shutdown.  The device that was released for the
 *   failed switch must not be used or closed again.
 */
#include "verif.h"
#include "plat_seq.h"
#include <stdlib.h>
#include <string.h>
#include "mock_devices.h"
#include "runtime/sink.h"
#include "runtime/filter.h"

#ifndef NMAX
#define NMAX 3
#endif
#ifndef RING_FRAMES
#define RING_FRAMES 4
#endif
#ifndef CL_MODE
#define CL_MODE 1
#endif
/* PROG 2: the optional calls are fixed per harness instance through the bit mask P2MASK (bit i =
 * i-th optional call executes); without P2MASK they are symbolic */
#ifdef P2MASK
#define P2B(i) ((P2MASK >> (i)) & 1)
#define P2N 1
#else
#define P2B(i) ND(bool_t)
#define P2N (ND(uint8_t) & 1)
#endif
#define RING_BYTES (RING_FRAMES * FRAME_BYTES + 8)

static enum DeviceStatusCode
verif_video_sink_init(struct video_sink_s* self, uint8_t stream_id, size_t cap, void (*cb)(const struct video_sink_s*))
{
    (void)cap;
    return video_sink_init(self, stream_id, RING_BYTES, cb);
}
static enum DeviceStatusCode
verif_video_filter_init(struct video_filter_s* self, uint8_t stream_id, size_t cap, struct channel* out)
{
    (void)cap;
    return video_filter_init(self, stream_id, RING_BYTES, out);
}
#define video_sink_init verif_video_sink_init
#define video_filter_init verif_video_filter_init
#include "acquire.c"
#undef video_sink_init
#undef video_filter_init

/* ---- sync-model callbacks ---- */
static int blocked;
void verif_on_lock_acquire(struct lock* l) { (void)l; }
void verif_on_lock_release(struct lock* l) { (void)l; }
void verif_on_notify(struct condition_variable* cv) { (void)cv; }
void
verif_on_wait(struct condition_variable* cv, struct lock* l)
{
    /* a worker that blocks cannot be run to completion: this coarse schedule does not exist */
    blocked = 1;
    VASSUME(0);
}
static struct runtime* RT;
int
verif_thread_tag(const struct thread* t)
{
    for (int i = 0; i < 2; ++i) {
        if (t == &RT->video[i].source.thread) return 10 * i + 1;
        if (t == &RT->video[i].filter.thread) return 10 * i + 2;
        if (t == &RT->video[i].sink.thread) return 10 * i + 3;
    }
    return 99;
}
static int running_bodies;
static int in_abort;
void
verif_on_thread_start(int tag)
{
    /* C07 (abort reaches a sleeping writer): a source body that has not finished when abort is
     * called may be asleep in channel_write_map on a full ring that nothing will drain (the client
     * holds its region, or the sink is gone).  The refusal of writes is what wakes it (C03), and
     * the writer re-checks the flag under the lock when it wakes: the refusal must therefore still
     * stand when that body gets to run, i.e. until the source thread has exited.  (In the coarse
     * model the body of a not-yet-finished source runs at its join.) */
    if (tag % 10 == 1 && in_abort)
        VASSERT(RT->video[tag / 10].sink.in.is_accepting_writes == 0, "C07: writes are accepted again before the source thread has exited during abort (a writer woken from a full ring goes back to sleep: abort hangs)");
    /* C10 (flush hand-over): the sink may be told to stop only after the filter thread has finished;
     * in the coarse model a filter body that starts with sink.is_stopping already set means the
     * source raised it without waiting for the filter */
    if (tag % 10 == 2)
        VASSERT(RT->video[tag / 10].sink.is_stopping == 0, "C10: the sink was told to stop before the filter thread had finished (averaged frames emitted during the filter's final flush can miss the storage)");
}
void verif_on_thread_end(int tag) { (void)tag; }
void verif_run_pending(struct thread* self);
int verif_thread_pending(const struct thread* self);
extern int verif_join_log[16], verif_join_n, verif_create_log[16], verif_create_n;

static void reporter(int e, const char* f, int l, const char* fn, const char* m) {}

/* G-API (C07d): a software trigger releases at most ONE blocked frame call, so the trigger that
 * acquire_abort fires to unblock the camera must come AFTER the stop request is visible to the
 * source thread and after writes are refused; otherwise the source can deliver that frame, loop,
 * and block again on a trigger that never comes (source unit + C18 give: stop flag set and then
 * a trigger => the source thread exits). */
static void
on_trigger(int cam)
{
    if (!in_abort) return;
    for (int i = 0; i < 2; ++i)
        if (((RT->valid_video_streams >> i) & 1) && RT->video[i].source.camera && ((struct mock_cam*)RT->video[i].source.camera)->id == cam) {
            VASSERT(RT->video[i].source.is_stopping == 1, "C07: acquire_abort fired the unblocking trigger before the source's stop request was set");
            VASSERT(RT->video[i].sink.in.is_accepting_writes == 0, "C07: acquire_abort fired the unblocking trigger before writes were refused");
        }
}

/* C04/C02: storage reads packets in place; the stream's sink must still hold the window mapped */
static void
on_append(int sto, const struct VideoFrame* frames, size_t nbytes)
{
    for (int i = 0; i < 2; ++i)
        if (((RT->valid_video_streams >> i) & 1) && RT->video[i].sink.storage && ((struct mock_sto*)RT->video[i].sink.storage)->id == sto)
            VASSERT(RT->video[i].sink.reader.state == ChannelState_Mapped, "C04: packet handed to storage after its region was released to the writer (zero-copy window no longer mapped)");
}
static struct AcquireProperties props;
static void
fill_props(int stream, int cam, int sto, uint64_t nframes, uint32_t avg)
{
    struct aq_properties_video_s* v = &props.video[stream];
    memset(v, 0, sizeof *v);
    v->camera.identifier.kind = DeviceKind_Camera;
    v->camera.identifier.device_id = (uint8_t)cam;
    v->storage.identifier.kind = DeviceKind_Storage;
    v->storage.identifier.device_id = (uint8_t)(NCAM + sto);
    v->max_frame_count = nframes;
    v->frame_average_count = avg;
    v->storage.write_delay_ms = 0;
}

/* ---- monitoring client ---- */
static int cl_seen_total, cl_gap, cl_stale, cl_bad, cl_fail;
static int cl_next;     /* next frame id expected in the current acquisition (-1: any first) */
static int cur_acq;     /* acquisition number as counted by the camera */
static int cl_mapped;
static size_t cl_len;
static void
client_map(struct AcquireRuntime* rt, int expect_ok)
{
    struct VideoFrame *beg = 0, *end = 0;
    enum AcquireStatusCode rc = acquire_map_read(rt, 0, &beg, &end);
    if (rc != AcquireStatus_Ok) { if (expect_ok) ++cl_fail; return; }
    cl_mapped = 1;
    cl_len = (size_t)((uintptr_t)end - (uintptr_t)beg);
    const uint8_t* cur = (const uint8_t*)beg;
    for (int g = 0; g < 2 * NMAX + 2 && cur < (const uint8_t*)end; ++g) {
        const struct VideoFrame* f = (const struct VideoFrame*)cur;
        if (f->bytes_of_frame != FRAME_BYTES || ((uintptr_t)cur & 7)) { ++cl_bad; break; }
        int acq = (f->data[0] >> 4) & 3, cam = f->data[0] >> 6, idx = f->data[0] & 15;
        if (cam != 0 || idx != (int)(f->frame_id & 15) || f->data[PX - 1] != f->data[0]) ++cl_bad;
        if (acq != (cur_acq & 3)) ++cl_stale;       /* a frame of another (earlier) acquisition */
        if (cl_next >= 0 && (int)f->frame_id != cl_next) ++cl_gap; /* gap, repeat or reordering */
        cl_next = (int)f->frame_id + 1;
        ++cl_seen_total;
        cur += f->bytes_of_frame;
    }
}
static void
client_unmap_k(struct AcquireRuntime* rt, size_t k)
{
    /* consume k whole frames (or everything mapped if fewer) */
    size_t bytes = k * FRAME_BYTES;
    if (bytes > cl_len) bytes = cl_len;
    if (acquire_unmap_read(rt, 0, bytes) != AcquireStatus_Ok) ++cl_fail;
    if (cl_mapped && bytes < cl_len) cl_next -= (int)((cl_len - bytes) / FRAME_BYTES); /* unconsumed frames come again */
    cl_mapped = 0;
    cl_len = 0;
}

int
main(void)
{
    mock_reset();
    mock_append_hook = on_append;
    struct AcquireRuntime* rt = acquire_init(reporter);
    VASSUME(rt != 0);
    RT = containerof(rt, struct runtime, handle);

#if PROG == 1 || PROG == 3
    int holding_across_stop = 0;
    for (int a = 0; a < ACQS; ++a) {
#ifdef FIX_N
        uint64_t N = FIX_N;
#else
        uint64_t N = ND(uint8_t);
        VASSUME(N >= 1 && N <= NMAX);
#endif
        fill_props(0, 0, 0, N, 0);
#if PROG == 3
#ifndef FAULT_ACQ
#define FAULT_ACQ 0
#endif
        int fault_kind = 0;
        if (a == FAULT_ACQ) {
#ifdef FAULT_KIND
            fault_kind = FAULT_KIND; /* 1 camera, 2 storage: fixed per harness instance */
#else
            fault_kind = ND(uint8_t);
            VASSUME(fault_kind >= 1 && fault_kind <= 2);
#endif
        }
#endif
        VASSERT(acquire_configure(rt, &props) == AcquireStatus_Ok, "configure failed");
#if PROG == 3
#ifdef FAULT_AT
        if (fault_kind == 1) CAM[0].fail_frame_at = FAULT_AT; else CAM[0].fail_frame_at = -1;
        if (fault_kind == 2) STO[0].fail_append_at = FAULT_AT; else STO[0].fail_append_at = -1;
#else
        if (fault_kind == 1) { CAM[0].fail_frame_at = ND(uint8_t); VASSUME(CAM[0].fail_frame_at < (int)N); }
        else CAM[0].fail_frame_at = -1;
        if (fault_kind == 2) { STO[0].fail_append_at = ND(uint8_t); VASSUME(STO[0].fail_append_at < (int)N); }
        else STO[0].fail_append_at = -1;
#endif
#endif
        VASSERT(acquire_start(rt) == AcquireStatus_Ok, "start failed");
        cur_acq = CAM[0].acq;
        STO[0].expect_acq = cur_acq;
        cl_next = -1;
        VASSERT(acquire_get_state(rt) == DeviceState_Running, "C08: not Running right after start although the workers have not finished");
#ifdef FIX_EARLY
        bool_t src_early = FIX_EARLY;
#else
        bool_t src_early = ND(bool_t);
#endif
#if PROG == 1
#ifdef EXCL_C06_FIRST_MAP
        /* known finding C06-first-map-sees-earlier-data assumed away: the client's FIRST map ever
         * happens before the first frame of the first acquisition is written (it registers at an
         * empty ring); every other client program is explored from there */
        if (a == 0) { client_map(rt, 1); if (cl_mapped) client_unmap_k(rt, 2 * NMAX); } /* before the source thread runs */
#endif
#endif
        if (src_early) verif_run_pending(&RT->video[0].source.thread);
#if PROG == 1
        /* client behaviour while the acquisition is live (CL_MODE, fixed per harness instance):
         *  0 none   1 map, unmap everything   2 map and keep holding across stop/abort
         *  3 map, consume ONE frame, map again, unmap everything (partial consumption)
         *  4 map, consume ONE frame of the last region and stop   5 map, hold across stop, never unmap */
#if CL_MODE == 1
        client_map(rt, 1);
        if (cl_mapped) client_unmap_k(rt, 2 * NMAX);
#elif CL_MODE == 2
        client_map(rt, 1);
#elif CL_MODE == 3
        client_map(rt, 1);
        if (cl_mapped) client_unmap_k(rt, 1);
        client_map(rt, 1);
        if (cl_mapped) client_unmap_k(rt, 2 * NMAX);
#elif CL_MODE == 4
        /* the client's LAST region before stop is consumed only in part (one frame of it) */
        client_map(rt, 1);
        if (cl_mapped) client_unmap_k(rt, 1);
#elif CL_MODE == 5
        /* the client holds its region across stop/abort and never releases it itself */
        client_map(rt, 1);
#endif
        holding_across_stop = cl_mapped;
#endif
#ifdef POLL_DONE
        /* the finite acquisition finishes on its own (every worker runs to completion) and the client
         * polls the state before it calls stop/abort: the call must still flush what the client has
         * not consumed, whatever the poll answered */
        verif_run_pending(&RT->video[0].source.thread);
        verif_run_pending(&RT->video[0].filter.thread);
        verif_run_pending(&RT->video[0].sink.thread);
        {
            enum DeviceState polled = acquire_get_state(rt);
            VASSERT(polled == DeviceState_Armed || polled == DeviceState_Running, "C08: state polled after the workers finished");
        }
#endif
#ifdef FIX_ABORT
        bool_t use_abort = FIX_ABORT;
#else
        bool_t use_abort = ND(bool_t);
#endif
        mock_trigger_hook = on_trigger;
        in_abort = use_abort;
        enum AcquireStatusCode rc = use_abort ? acquire_abort(rt) : acquire_stop(rt);
        in_abort = 0;
        VASSERT(rc == AcquireStatus_Ok, "stop/abort failed");
        VASSERT(!verif_thread_pending(&RT->video[0].source.thread) && !verif_thread_pending(&RT->video[0].filter.thread) &&
                  !verif_thread_pending(&RT->video[0].sink.thread), "C07: a worker thread is still alive after stop/abort returned");
        VASSERT(acquire_get_state(rt) == DeviceState_Armed, "C07/C08: runtime not Armed after stop/abort");
        VASSERT(CAM[0].started == 0, "C07: camera not stopped after stop/abort");
        VASSERT(STO[0].started == 0, "C07: storage not stopped after stop/abort");
        VASSERT(RT->video[0].sink.in.is_accepting_writes == 1, "C07: writes not re-accepted after stop/abort");
        VASSERT(STO[0].bad_packet == 0, "C05: malformed packet handed to storage");
        VASSERT(STO[0].order_errors == 0, "C04/C07: storage received frames out of order / with a gap");
        VASSERT(STO[0].tag_errors == 0, "C04/C07: storage received pixel bytes that are not this acquisition's frame (leftover or mixed stream)");
        VASSERT(STO[0].appended_after_fail == 0, "C09: append after a failed append");
#if PROG == 3
        if (a == FAULT_ACQ) {
            if (fault_kind == 1) VASSERT(STO[0].frames_this_run <= CAM[0].fail_frame_at, "C09: frames appended beyond the failing camera frame");
            VASSERT(CAM[0].stops == CAM[0].starts, "C09: camera not stopped once per start after a fault");
        } else {
            if (!use_abort) VASSERT(STO[0].frames_this_run == (int)N, "C09: the fault-free acquisition after a fault is incomplete");
        }
#else
        if (!use_abort) VASSERT(STO[0].frames_this_run == (int)N, "C04: storage did not receive exactly the N frames of the acquisition");
        else VASSERT(STO[0].frames_this_run <= CAM[0].frames_this_run, "C07: storage has more frames than the camera delivered");
#endif
        VASSERT(mock_protocol_ok(), "C08: device protocol violated (start/stop/append/close discipline)");
#if PROG == 1
        /* after stop/abort returned nothing of this acquisition is delivered later */
        if (!holding_across_stop) {
            int seen0 = cl_seen_total;
            cl_next = -1;
            client_map(rt, 1);
            VASSERT(cl_seen_total == seen0, "C06: frames of a finished acquisition delivered after stop/abort returned");
            if (cl_mapped) { acquire_unmap_read(rt, 0, cl_len); cl_mapped = 0; cl_len = 0; }
        } else {
#if CL_MODE == 5
            /* stop/abort has released the region on the client's behalf: the client goes straight on
             * to the next acquisition, where its map must succeed and show only that acquisition */
            cl_mapped = 0; cl_len = 0; cl_next = -1;
#else
            /* the client still holds its region: it releases it now */
            acquire_unmap_read(rt, 0, cl_len); cl_mapped = 0; cl_len = 0;
#endif
        }
        VASSERT(cl_gap == 0, "C06: client saw a gap, repeat or reordering");
        VASSERT(cl_stale == 0, "C06: client saw a frame of an earlier acquisition");
        VASSERT(cl_bad == 0, "C06/C05: client saw a malformed frame");
        VASSERT(cl_fail == 0, "C06: acquire_map_read/unmap_read failed");
#if CL_MODE >= 1 && defined(FIX_EARLY) && FIX_EARLY == 1
        COVER(a == 1 && cl_seen_total > 0);
#endif
#if CL_MODE == 2
        COVER(holding_across_stop);
#endif
#endif
#if !defined(FIX_ABORT) || FIX_ABORT == 0
        COVER(a == ACQS - 1 && STO[0].frames_this_run > 0);
#endif
    }
    acquire_shutdown(rt);
    VASSERT(CAM[0].opens == CAM[0].closes && STO[0].opens == STO[0].closes, "C08: device not closed exactly once by shutdown");
    VASSERT(mock_protocol_ok(), "C08: device protocol violated at shutdown");
    WITNESS_END();
#elif PROG == 2
    /* two streams; optional calls in a fixed order; other devices on re-configure */
    int started = 0;
    bool_t two = P2B(0);
    memset(&props, 0, sizeof props);
    fill_props(0, 0, 0, 1 + P2N, 0);
    if (two) fill_props(1, 1, 1, 1 + P2N, 0);
    VASSERT(acquire_configure(rt, &props) == AcquireStatus_Ok, "configure failed");
    STO[0].expect_cam = 0; STO[1].expect_cam = 1;
    if (P2B(1)) {
        VASSERT(acquire_start(rt) == AcquireStatus_Ok, "start failed");
        started = 1;
        STO[0].expect_acq = CAM[0].acq; STO[1].expect_acq = CAM[1].acq;
        VASSERT(acquire_get_state(rt) == DeviceState_Running, "C08: not Running after start");
        if (P2B(2)) acquire_execute_trigger(rt, 0);
        if (P2B(3)) { /* start while running: must fail cleanly */
            enum AcquireStatusCode rc2 = acquire_start(rt);
            VASSERT(rc2 != AcquireStatus_Ok, "C08: start while running reported success");
        }
        if (P2B(4)) VASSERT(acquire_stop(rt) == AcquireStatus_Ok, "stop failed");
        else { mock_trigger_hook = on_trigger; in_abort = 1; VASSERT(acquire_abort(rt) == AcquireStatus_Ok, "abort failed"); in_abort = 0; }
        VASSERT(acquire_get_state(rt) == DeviceState_Armed || acquire_get_state(rt) == DeviceState_AwaitingConfiguration, "C08: state after stop/abort");
        VASSERT(CAM[0].started == 0 && STO[0].started == 0 && CAM[1].started == 0 && STO[1].started == 0, "C08: a device is still started after stop/abort");
    }
    VASSERT(mock_protocol_ok(), "C08: device protocol violated");
    if (P2B(5)) {
        /* re-configure with the other devices (swap), then a full acquisition */
        memset(&props, 0, sizeof props);
        /* stream 0 moves to the third camera/storage; optionally stream 1 takes over the devices
         * stream 0 has just released (configure handles the streams in order) */
        fill_props(0, 2, 2, 1, 0);
        if (two && P2B(8)) { /* stream 1 is no longer requested: it keeps its devices until shutdown closes them */ }
        else if (two && P2B(6)) fill_props(1, 0, 0, 1, 0);
        else if (two) fill_props(1, 1, 1, 1, 0);
        VASSERT(acquire_configure(rt, &props) == AcquireStatus_Ok, "re-configure failed");
        STO[2].expect_cam = 2; STO[0].expect_cam = 0; STO[1].expect_cam = 1;
        VASSERT(mock_protocol_ok(), "C08: device protocol violated by re-configure");
        if (P2B(7)) {
            VASSERT(acquire_start(rt) == AcquireStatus_Ok, "second start failed");
            STO[0].expect_acq = CAM[0].acq; STO[1].expect_acq = CAM[1].acq; STO[2].expect_acq = CAM[2].acq;
            VASSERT(acquire_stop(rt) == AcquireStatus_Ok, "second stop failed");
            VASSERT(STO[2].frames_this_run == 1, "C04: second acquisition incomplete");
            VASSERT(acquire_get_state(rt) == DeviceState_Armed, "C08: not Armed after stop");
        }
    }
    VASSERT(STO[0].tag_errors == 0 && STO[1].tag_errors == 0 && STO[2].tag_errors == 0, "C04: streams mixed (storage got another camera's frames)");
    VASSERT(STO[0].order_errors == 0 && STO[1].order_errors == 0 && STO[2].order_errors == 0 && STO[0].bad_packet == 0 && STO[1].bad_packet == 0 && STO[2].bad_packet == 0, "C04/C05: packets");
    acquire_shutdown(rt);
    for (int i = 0; i < NCAM; ++i) {
        VASSERT(CAM[i].opens == CAM[i].closes && !CAM[i].open, "C08: camera not closed exactly once by shutdown at the latest");
        VASSERT(STO[i].opens == STO[i].closes && !STO[i].open, "C08: storage not closed exactly once by shutdown at the latest");
        VASSERT(CAM[i].starts == CAM[i].stops, "C08: camera not stopped exactly once per start");
        VASSERT(STO[i].starts == STO[i].stops, "C08: storage not stopped exactly once per start");
    }
    VASSERT(mock_protocol_ok(), "C08: device protocol violated at shutdown");
#ifndef P2MASK
    COVER(started && two);
    COVER(CAM[1].opens >= 1 && STO[1].starts >= 1);
#endif
    WITNESS_END();
#elif PROG == 4
    memset(&props, 0, sizeof props);
    fill_props(0, 0, 0, 1, 0);
    VASSERT(acquire_configure(rt, &props) == AcquireStatus_Ok, "configure failed");
    STO[0].expect_cam = 0; STO[1].expect_cam = 1; STO[2].expect_cam = 2;
    /* OFM fixes the choices per harness instance: bit0 first acquisition, bit1 which open fails,
     * bit2 switch camera, bit3 switch storage, bit4 get_configuration, bit5 configure back */
#ifdef OFM
#define OFB(i) ((OFM >> (i)) & 1)
#else
#define OFB(i) ND(bool_t)
#endif
    bool_t ran_first = OFB(0);
    if (ran_first) {
        VASSERT(acquire_start(rt) == AcquireStatus_Ok, "start failed");
        STO[0].expect_acq = CAM[0].acq;
        VASSERT(acquire_stop(rt) == AcquireStatus_Ok, "stop failed");
    }
    /* switch devices; one of the driver's open calls during this configure fails */
    uint8_t which = OFB(1), swcam = OFB(2), swsto = OFB(3);
    VASSUME(which < 2 && (swcam || swsto));
    mock_open_fail_at = mock_open_calls + which;
    memset(&props, 0, sizeof props);
    fill_props(0, swcam ? 1 : 0, swsto ? 1 : 0, 1, 0);
    int opens_before = mock_open_calls;
    enum AcquireStatusCode rc1 = acquire_configure(rt, &props);
    int fault_hit = mock_open_calls > mock_open_fail_at;
    mock_open_fail_at = -1;
    /* (acquire_configure reports Ok by design even when a stream could not be configured: the stream is
     * then simply not valid and the state says so; only the state is checked here) */
    (void)rc1;
    if (fault_hit) VASSERT(acquire_get_state(rt) != DeviceState_Running, "C08: Running reported after a configure whose device open failed");
    VASSERT(mock_protocol_ok(), "C08: device protocol violated by a configure whose device open failed");
    if (OFB(4)) {
        struct AcquireProperties got;
        memset(&got, 0, sizeof got);
        acquire_get_configuration(rt, &got);
        VASSERT(mock_protocol_ok(), "C08: get_configuration used a released device");
    }
    /* fault-free configure: back to the first devices, or again to the new ones */
    uint8_t back = OFB(5);
    memset(&props, 0, sizeof props);
    int c2 = back ? 0 : (swcam ? 1 : 0), s2 = back ? 0 : (swsto ? 1 : 0);
    fill_props(0, c2, s2, 1, 0);
    VASSERT(acquire_configure(rt, &props) == AcquireStatus_Ok, "C08: fault-free configure after a failed device switch failed");
    STO[s2].expect_cam = c2;
    VASSERT(mock_protocol_ok(), "C08: device protocol violated by the configure after a failed device switch");
    VASSERT(acquire_start(rt) == AcquireStatus_Ok, "start after failed switch failed");
    STO[s2].expect_acq = CAM[c2].acq;
    VASSERT(acquire_stop(rt) == AcquireStatus_Ok, "stop after failed switch failed");
    VASSERT(STO[s2].frames_this_run == 1 && STO[s2].tag_errors == 0, "C04/C08: acquisition after a failed device switch incomplete");
    VASSERT(mock_protocol_ok(), "C08: device protocol violated");
    acquire_shutdown(rt);
    for (int i = 0; i < NCAM; ++i) {
        VASSERT(CAM[i].opens == CAM[i].closes && !CAM[i].open, "C08: camera not closed exactly once by shutdown at the latest");
        VASSERT(STO[i].opens == STO[i].closes && !STO[i].open, "C08: storage not closed exactly once by shutdown at the latest");
        VASSERT(CAM[i].starts == CAM[i].stops && STO[i].starts == STO[i].stops, "C08: device not stopped exactly once per start");
    }
    VASSERT(mock_protocol_ok(), "C08: device protocol violated at shutdown");
#ifndef OFM
    COVER(fault_hit && swsto && which == 0 && !swcam);
    COVER(fault_hit && swcam && which == 0);
    COVER(fault_hit && which == 1 && back);
#else
    COVER(fault_hit || OFB(1));
#endif
    (void)opens_before;
    WITNESS_END();
#endif
    return 0;
}
