/* Recording mock driver (2 cameras + 2 storages) and a C stub of the device manager.
 * Shared by the whole-runtime and unit harnesses.  Everything is `static` and lives in the
 * harness translation unit.
 *
 * Frames are tagged: pixel bytes = TAG(cam, acquisition, frame index) so that a storage/monitor
 * can tell which camera, which acquisition and which frame a packet entry came from.
 * Protocol monitor per device: open -> (set|get)* -> start -> (frame|append)* -> stop -> ... -> close,
 * one close per open, no call after close (the object is freed by close, CBMC reports the access),
 * start only when the HAL says Armed, append only between start and stop.
 */
#ifndef MOCK_DEVICES_H
#define MOCK_DEVICES_H
#include "verif.h"
#include <stdlib.h>
#include <string.h>
#include "device/hal/device.manager.h"
#include "device/kit/driver.h"
#include "device/kit/camera.h"
#include "device/kit/storage.h"
#include "device/props/components.h"

#ifndef PX
#define PX 2 /* pixels (u8) per image */
#endif
#define FRAME_BYTES (8 * ((sizeof(struct VideoFrame) + PX + 7) / 8))
#ifndef MOCK_MAX_FRAMES
#define MOCK_MAX_FRAMES 4
#endif
#define NCAM 3
#define NSTO 3
#define TAG(cam, acq, i) ((uint8_t)(((cam) << 6) | (((acq) & 3) << 4) | ((i) & 15)))

struct mock_cam {
    struct Camera camera;
    int id;
};
struct mock_sto {
    struct Storage storage;
    int id;
};

/* per device-id logs (survive close; the objects themselves are freed by close) */
static struct {
    int open, opens, closes, started, starts, stops, frames, frames_this_run, calls_after_close, viol;
    int acq;            /* acquisition counter = number of starts */
    int fail_frame_at;  /* get_frame call index (within a run) that fails, -1 none */
    int empty_at;       /* get_frame CALL index (within a run) that returns no frame (*nbytes = 0: a time-out), -1 none */
    int calls_this_run, empties;
    int triggers;
} CAM[NCAM];
static struct {
    int open, opens, closes, started, starts, stops, appends, frames, frames_this_run, viol, calls_after_close;
    int fail_append_at; /* append call index (within a run) that returns a non-running state, -1 none */
    int bad_packet;     /* structural errors seen in packets */
    int order_errors;   /* frame id not the expected next one */
    int tag_errors;     /* pixel bytes not those of the expected camera/acquisition/frame */
    int expect_cam;     /* which camera feeds this storage */
    int expect_acq;
    int averaging;      /* 0: raw frames expected; k>=2: f32 frames, ids multiples of k */
    int appended_after_fail;
    int failed;
} STO[NSTO];

#ifdef MOCK_APPEND_LOG
static const uint8_t* mock_app_beg[MOCK_APPEND_LOG];
static size_t mock_app_len[MOCK_APPEND_LOG];
static int mock_napp;
#endif

static struct ImageShape
mock_shape(void)
{
    struct ImageShape s;
    memset(&s, 0, sizeof s);
    s.dims.channels = 1; s.dims.width = PX; s.dims.height = 1; s.dims.planes = 1;
    s.strides.channels = 1; s.strides.width = 1; s.strides.height = PX; s.strides.planes = PX;
    s.type = SampleType_u8;
    return s;
}

/* ---- camera ---- */
static enum DeviceStatusCode mc_set(struct Camera* c, struct CameraProperties* p) { return Device_Ok; }
static enum DeviceStatusCode mc_get(const struct Camera* c, struct CameraProperties* p) { return Device_Ok; }
static enum DeviceStatusCode mc_get_meta(const struct Camera* c, struct CameraPropertyMetadata* m) { return Device_Ok; }
static enum DeviceStatusCode
mc_get_shape(const struct Camera* c, struct ImageShape* s)
{
    *s = mock_shape();
    return Device_Ok;
}
static enum DeviceStatusCode
mc_start(struct Camera* c)
{
    int id = ((struct mock_cam*)c)->id;
    if (CAM[id].started) ++CAM[id].viol; /* start while started */
    if (c->state != DeviceState_Armed) ++CAM[id].viol; /* start only when armed */
    CAM[id].started = 1;
    ++CAM[id].starts;
    ++CAM[id].acq;
    CAM[id].frames_this_run = 0;
    CAM[id].calls_this_run = 0;
    return Device_Ok;
}
static void (*mock_cam_stop_hook)(int cam);
static enum DeviceStatusCode
mc_stop(struct Camera* c)
{
    int id = ((struct mock_cam*)c)->id;
    if (mock_cam_stop_hook) mock_cam_stop_hook(id);
    if (!CAM[id].started) ++CAM[id].viol; /* stop without start */
    CAM[id].started = 0;
    ++CAM[id].stops;
    return Device_Ok;
}
static void (*mock_trigger_hook)(int cam);
static enum DeviceStatusCode
mc_trigger(struct Camera* c)
{
    ++CAM[((struct mock_cam*)c)->id].triggers;
    if (mock_trigger_hook) mock_trigger_hook(((struct mock_cam*)c)->id);
    return Device_Ok;
}
static enum DeviceStatusCode
mc_get_frame(struct Camera* c, void* im, size_t* nbytes, struct ImageInfo* info)
{
    int id = ((struct mock_cam*)c)->id;
    if (!CAM[id].started) ++CAM[id].viol;
    int k = CAM[id].frames_this_run;
    if (k == CAM[id].fail_frame_at) return Device_Err;
    if (CAM[id].calls_this_run++ == CAM[id].empty_at) { *nbytes = 0; ++CAM[id].empties; return Device_Ok; } /* no frame this time */
    uint8_t* px = (uint8_t*)im;
    for (int i = 0; i < PX; ++i) px[i] = TAG(id, CAM[id].acq, k);
    *nbytes = PX;
    info->shape = mock_shape();
    info->hardware_frame_id = (uint64_t)k;
    info->hardware_timestamp = 1000 + (uint64_t)k;
    ++CAM[id].frames_this_run;
    ++CAM[id].frames;
    return Device_Ok;
}

/* ---- storage ---- */
static enum DeviceState ms_set(struct Storage* s, const struct StorageProperties* p) { return DeviceState_Armed; }
static void ms_get(const struct Storage* s, struct StorageProperties* p) {}
static void ms_get_meta(const struct Storage* s, struct StoragePropertyMetadata* m) {}
static enum DeviceState
ms_start(struct Storage* s)
{
    int id = ((struct mock_sto*)s)->id;
    if (STO[id].started) ++STO[id].viol;
    STO[id].started = 1;
    ++STO[id].starts;
    STO[id].frames_this_run = 0;
    STO[id].appends = 0;
    STO[id].failed = 0;
    return DeviceState_Running;
}
static enum DeviceState
ms_stop(struct Storage* s)
{
    int id = ((struct mock_sto*)s)->id;
    if (!STO[id].started) ++STO[id].viol; /* stop without start */
    STO[id].started = 0;
    ++STO[id].stops;
    return DeviceState_Armed;
}
/* zero-copy obligation: a packet is a window into the ring; the harness may check at every append that
 * the sink still holds that window mapped (once it is unmapped the writer may reuse the memory) */
static void (*mock_append_hook)(int sto, const struct VideoFrame* frames, size_t nbytes);
static enum DeviceState
ms_append(struct Storage* s, const struct VideoFrame* frames, size_t* nbytes)
{
    int id = ((struct mock_sto*)s)->id;
    if (mock_append_hook) mock_append_hook(id, frames, *nbytes);
    if (!STO[id].started) ++STO[id].viol; /* data outside start..stop */
    if (STO[id].failed) ++STO[id].appended_after_fail;
    if (STO[id].appends++ == STO[id].fail_append_at) {
        STO[id].failed = 1;
        STO[id].started = 0; /* the device reports that it has left the running state by itself */
        return DeviceState_AwaitingConfiguration;
    }
#ifdef MOCK_APPEND_LOG
    /* only record where the packet lies; the harness checks the log against its linear tape */
    if (mock_napp < MOCK_APPEND_LOG) { mock_app_beg[mock_napp] = (const uint8_t*)frames; mock_app_len[mock_napp] = *nbytes; }
    ++mock_napp;
    return DeviceState_Running;
#endif
    /* packet = whole frames, exactly chained, 8-byte aligned (C05) */
    const uint8_t* cur = (const uint8_t*)frames;
    const uint8_t* end = cur + *nbytes;
    if (((uintptr_t)cur & 7) != 0) ++STO[id].bad_packet;
    for (int guard = 0; guard < MOCK_MAX_FRAMES && cur < end; ++guard) {
        const struct VideoFrame* f = (const struct VideoFrame*)cur;
        if ((size_t)(end - cur) < sizeof(struct VideoFrame)) { ++STO[id].bad_packet; break; }
        if (f->bytes_of_frame != FRAME_BYTES && !STO[id].averaging) { ++STO[id].bad_packet; break; }
        if (f->bytes_of_frame < sizeof(struct VideoFrame) || (f->bytes_of_frame & 7) || f->bytes_of_frame > (size_t)(end - cur)) { ++STO[id].bad_packet; break; }
        if (!STO[id].averaging) {
            if (f->frame_id != (uint64_t)STO[id].frames_this_run) ++STO[id].order_errors;
            if (f->hardware_frame_id != f->frame_id) ++STO[id].order_errors;
            if (f->shape.dims.width != PX || f->shape.type != SampleType_u8 || f->shape.strides.planes != PX) ++STO[id].bad_packet;
            for (int i = 0; i < PX; ++i)
                if (f->data[i] != TAG(STO[id].expect_cam, STO[id].expect_acq, (int)f->frame_id)) ++STO[id].tag_errors;
        }
        ++STO[id].frames_this_run;
        ++STO[id].frames;
        cur += f->bytes_of_frame;
    }
    if (cur != end) ++STO[id].bad_packet;
    return DeviceState_Running;
}
static void ms_destroy(struct Storage* s) {}
static void ms_reserve(struct Storage* s, const struct ImageShape* sh) {}

/* ---- driver ---- */
static int mock_open_fail_at = -1, mock_open_calls;
static enum DeviceStatusCode
md_open(struct Driver* d, uint64_t device_id, struct Device** out)
{
    if (mock_open_calls++ == mock_open_fail_at) { *out = 0; return Device_Err; }
    if (device_id < NCAM) {
        struct mock_cam* c = malloc(sizeof *c);
        VASSUME(c != 0);
        memset(c, 0, sizeof *c);
        c->id = (int)device_id;
        c->camera.state = DeviceState_AwaitingConfiguration;
        c->camera.set = mc_set; c->camera.get = mc_get; c->camera.get_meta = mc_get_meta; c->camera.get_shape = mc_get_shape;
        c->camera.start = mc_start; c->camera.stop = mc_stop; c->camera.execute_trigger = mc_trigger; c->camera.get_frame = mc_get_frame;
        if (CAM[c->id].open) ++CAM[c->id].viol; /* opened twice without close */
        CAM[c->id].open = 1; ++CAM[c->id].opens; CAM[c->id].started = 0;
        *out = &c->camera.device;
        return Device_Ok;
    }
    if (device_id < NCAM + NSTO) {
        struct mock_sto* s = malloc(sizeof *s);
        VASSUME(s != 0);
        memset(s, 0, sizeof *s);
        s->id = (int)device_id - NCAM;
        s->storage.state = DeviceState_AwaitingConfiguration;
        s->storage.set = ms_set; s->storage.get = ms_get; s->storage.get_meta = ms_get_meta; s->storage.start = ms_start;
        s->storage.append = ms_append; s->storage.stop = ms_stop; s->storage.destroy = ms_destroy; s->storage.reserve_image_shape = ms_reserve;
        if (STO[s->id].open) ++STO[s->id].viol;
        STO[s->id].open = 1; ++STO[s->id].opens; STO[s->id].started = 0;
        *out = &s->storage.device;
        return Device_Ok;
    }
    *out = 0;
    return Device_Err;
}
static enum DeviceStatusCode
md_describe(const struct Driver* d, struct DeviceIdentifier* id, uint64_t i)
{
    memset(id, 0, sizeof *id);
    id->device_id = (uint8_t)i;
    id->kind = i < NCAM ? DeviceKind_Camera : DeviceKind_Storage;
    return i < NCAM + NSTO ? Device_Ok : Device_Err;
}
static enum DeviceStatusCode
md_close(struct Driver* d, struct Device* dev)
{
    if (dev->identifier.kind == DeviceKind_Camera) {
        struct mock_cam* c = (struct mock_cam*)dev;
        if (!CAM[c->id].open) ++CAM[c->id].viol;
        if (CAM[c->id].started) ++CAM[c->id].viol; /* closed while started: never stopped for that start */
        CAM[c->id].open = 0; ++CAM[c->id].closes;
        free(c);
    } else {
        struct mock_sto* s = (struct mock_sto*)dev;
        if (!STO[s->id].open) ++STO[s->id].viol;
        if (STO[s->id].started) ++STO[s->id].viol;
        STO[s->id].open = 0; ++STO[s->id].closes;
        free(s);
    }
    return Device_Ok;
}
static struct Driver mock_driver = { .open = md_open, .describe = md_describe, .close = md_close };

/* ---- device manager (C stub of device.manager.cpp) ---- */
enum DeviceStatusCode device_manager_init(struct DeviceManager* self, void (*reporter)(int, const char*, int, const char*, const char*)) { self->impl = &mock_driver; return Device_Ok; }
enum DeviceStatusCode device_manager_destroy(struct DeviceManager* self) { self->impl = 0; return Device_Ok; }
uint32_t device_manager_count(const struct DeviceManager* self) { return NCAM + NSTO; }
enum DeviceStatusCode
device_manager_get(struct DeviceIdentifier* out, const struct DeviceManager* self, uint32_t index)
{
    return md_describe(&mock_driver, out, index);
}
enum DeviceStatusCode
device_manager_select_first(const struct DeviceManager* self, enum DeviceKind kind, struct DeviceIdentifier* out)
{
    if (kind == DeviceKind_Camera) return md_describe(&mock_driver, out, 0);
    if (kind == DeviceKind_Storage) return md_describe(&mock_driver, out, NCAM);
    return Device_Err;
}
enum DeviceStatusCode
device_manager_select(const struct DeviceManager* self, enum DeviceKind kind, const char* name, size_t n, struct DeviceIdentifier* out)
{
    return device_manager_select_first(self, kind, out);
}
enum DeviceStatusCode
device_manager_select_default(const struct DeviceManager* self, enum DeviceKind kind, struct DeviceIdentifier* out)
{
    return device_manager_select_first(self, kind, out);
}
struct Driver*
device_manager_get_driver(const struct DeviceManager* self, const struct DeviceIdentifier* identifier)
{
    return &mock_driver;
}

static void
mock_reset(void)
{
    memset(CAM, 0, sizeof CAM);
    memset(STO, 0, sizeof STO);
    for (int i = 0; i < NCAM; ++i) CAM[i].fail_frame_at = CAM[i].empty_at = -1;
    for (int i = 0; i < NSTO; ++i) { STO[i].fail_append_at = -1; STO[i].expect_cam = i; }
}
static int
mock_protocol_ok(void)
{
    int v = 0;
    for (int i = 0; i < NCAM; ++i) v += CAM[i].viol;
    for (int i = 0; i < NSTO; ++i) v += STO[i].viol;
    return v == 0;
}
#endif
