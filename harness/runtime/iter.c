/* C05.4: iteration by the size field.  A packet of 1..3 whole frames whose sizes are symbolic
 * (header + 0..16 image bytes rounded up to 8) lies at the END of a fixed buffer (so reading one
 * byte past the packet leaves the object).  The real frame_iterator_next, vfslice_split_at_delay_ms
 * and trash_append must visit every header exactly once, in order, stop exactly at the packet end
 * and never read outside it. */
#include "verif.h"
#include <stdlib.h>
#include <string.h>
#include "platform.h"
#include "frame_iterator.c"
#include "vfslice.c"
#include "trash.c"
#define NO_UNIT_TESTS
#include "device/props/components.c"

#define MAXF 3
#define MAXB (sizeof(struct VideoFrame) + 16)
static uint8_t arena[MAXF * MAXB] __attribute__((aligned(8)));

void clock_init(struct clock* c) { c->origin = 0; }
void clock_shift_ms(struct clock* c, double ms) {}
static int too_new_at = -1, cmp_calls;
int8_t
clock_cmp(struct clock* c, uint64_t ts)
{
    /* the walk must call this once per frame, in order, with that frame's time stamp */
    VASSERT(ts == (uint64_t)cmp_calls, "C05: the delay walk visited a position that is not the next frame header");
    ++cmp_calls;
    /* frames before index too_new_at are old enough, that one and the following are too new */
    return (int)ts >= too_new_at && too_new_at >= 0 ? 1 : -1;
}
void aq_logger(int is_error, const char* file, int line, const char* function, const char* fmt, ...) {}
int storage_properties_copy(struct StorageProperties* dst, const struct StorageProperties* src) { return 1; }

int
main(void)
{
    int nf = ND(uint8_t);
    VASSUME(nf >= 1 && nf <= MAXF);
    size_t sz[MAXF], imgb[MAXF], total = 0;
    for (int i = 0; i < MAXF; ++i) {
        size_t img = ND(uint8_t);
        VASSUME(img <= 16);
        imgb[i] = img;
        sz[i] = 8 * ((sizeof(struct VideoFrame) + img + 7) / 8);
        if (i < nf) total += sz[i];
    }
    uint8_t* beg = arena + (sizeof arena - total);
    uint8_t* end = arena + sizeof arena;
    {
        uint8_t* cur = beg;
        for (int i = 0; i < MAXF; ++i)
            if (i < nf) {
                struct VideoFrame* f = (struct VideoFrame*)cur;
                memset(f, 0, sizeof *f);
                f->bytes_of_frame = sz[i];
                /* a shape consistent with the image bytes (u8, img x 1 x 1 x 1), as the source writes it */
                f->shape = (struct ImageShape){ .dims = { .channels = 1, .width = (uint32_t)imgb[i], .height = 1, .planes = 1 },
                                                .strides = { .channels = 1, .width = 1, .height = (int64_t)imgb[i], .planes = (int64_t)imgb[i] },
                                                .type = SampleType_u8 };
                f->frame_id = (uint64_t)i;
                f->timestamps.acq_thread = (uint64_t)i; /* used by the clock_cmp stub */
                cur += sz[i];
            }
    }
    /* frame_iterator */
    {
        struct slice s = { beg, end };
        struct frame_iterator it = frame_iterator_init(&s);
        int seen = 0;
        struct VideoFrame* f;
        for (int g = 0; g < MAXF + 1; ++g) {
            f = frame_iterator_next(&it);
            if (!f) break;
            VASSERT(f->frame_id == (uint64_t)seen, "C05: frame_iterator visited a position that is not the next header");
            ++seen;
        }
        VASSERT(seen == nf && frame_iterator_next(&it) == 0, "C05: frame_iterator did not visit every frame exactly once / did not stop at the packet end");
    }
    /* vfslice_split_at_delay_ms */
    {
        struct vfslice v = { (const struct VideoFrame*)beg, (const struct VideoFrame*)end };
        too_new_at = ND(int8_t);
        VASSUME(too_new_at >= -1 && too_new_at <= nf);
        cmp_calls = 0;
        struct vfslice rem = vfslice_split_at_delay_ms(&v, 5.0f);
        size_t want = 0;
        for (int i = 0; i < MAXF; ++i)
            if (i < nf && (too_new_at < 0 || i < too_new_at)) want += sz[i];
        VASSERT((const uint8_t*)rem.beg == beg + want && rem.end == v.end, "C05: split point is not a frame boundary / not the first too-new frame");
        cmp_calls = 0;
        struct vfslice all = vfslice_split_at_delay_ms(&v, 0.0f);
        VASSERT(all.beg == v.end, "C05: zero delay does not consume the whole packet");
    }
    /* trash_append */
    {
        struct Storage* t = trash_init();
        VASSUME(t != 0);
        struct Trash* tr = containerof(t, struct Trash, writer);
        tr->iframe = 0;
        size_t nb = total;
        VASSERT(trash_append(t, (const struct VideoFrame*)beg, &nb) == DeviceState_Running, "trash_append failed");
        VASSERT(tr->iframe == (uint64_t)nf, "C05: trash storage did not count every frame of the packet exactly once");
        free(tr);
    }
    COVER(nf == 3 && sz[0] != sz[1]);
    WITNESS_END();
    return 0;
}
