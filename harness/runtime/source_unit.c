/* Source-thread unit (G-SRC): the REAL video_source_thread (source.c is #included) + real
 * channel.c + HAL camera.c over the mock camera, against an environment of well-formed
 * readers and of the abort / sink-died signals.  Interleaving mechanism (B): env_step() is called
 * from every platform / logger / device stub the source thread passes through.
 *
 * MODE 1 (C04 G-SRC, C07a, C09): N <= NMAX frames, ring = RING_FRAMES frames (+8 slack bytes)
 *   so the writer blocks and wraps; environment = checker reader (consumes whole frames in
 *   order, verifies id / tag / size / shape), optional lazy second reader, and the scenario
 *   signals:   SCN 0 none (plain finite acquisition)
 *              SCN 1 abort: is_stopping=1, then channel_accept_writes(0), at arbitrary boundaries
 *              SCN 2 camera fault at a symbolic frame index
 *              SCN 3 sink died: source.is_stopping=1 + read_unmap(0) broadcast, reader never
 *                    consumes again (the sink thread's error path)
 *   At exit: committed stream = frames 0..M-1 in order (M = frames the camera delivered), M == N
 *   when nothing stopped it; both stop signals raised after the last commit; camera stopped;
 *   flags reset.  A sleep that nothing can end is reported (C03 sleep model).
 * MODE 2 (C05.1 framing arithmetic): one frame, camera shape fully symbolic (all 8 sample
 *   types, strides.planes up to 2^37), ring without readers: committed header has
 *   bytes_of_frame = 8*ceil((96+sz)/8) == size passed to write_map, multiple of 8, shape == camera's.
 */
#include "verif.h"
#include "plat_seq.h"
#include <stdlib.h>
#include <string.h>
#ifndef NMAX
#define NMAX 2
#endif
#define MOCK_MAX_FRAMES (NMAX + 2)
#include "mock_devices.h"
#include "device/hal/camera.h"
#include "source.c"

#ifndef RING_FRAMES
#define RING_FRAMES 2
#endif
#ifndef ENV_MAX
#define ENV_MAX 8
#endif

extern int chan_blocked_waits;
static struct channel ring;
static struct video_source_s src;
static int in_env, env_steps, main_done;
static int sleeping, woken;

/* scenario state */
static int stop_filter_calls, stop_sink_calls, commits_at_stop_signal;
static int abort_stage;  /* 0 nothing, 1 is_stopping set, 2 writes refused */
static int sink_dead;

/* checker reader: consumes whole frames in order */
static struct channel_reader chk, lazy;
static int chk_frames, chk_errors, lazy_on;
static size_t committed_bytes; /* ghost: bytes committed so far (from channel state deltas) */

static void
check_slice(struct slice s)
{
    const uint8_t* cur = s.beg;
    for (int g = 0; g < NMAX + 1 && cur && cur < s.end; ++g) {
        const struct VideoFrame* f = (const struct VideoFrame*)cur;
        if (((uintptr_t)cur & 7) || f->bytes_of_frame != FRAME_BYTES) { ++chk_errors; break; }
        if (f->frame_id != (uint64_t)chk_frames || f->hardware_frame_id != (uint64_t)chk_frames) ++chk_errors;
        if (f->shape.dims.width != PX || f->shape.strides.planes != PX || f->shape.type != SampleType_u8) ++chk_errors;
        if (f->timestamps.hardware != 1000 + (uint64_t)chk_frames) ++chk_errors;
        for (int i = 0; i < PX; ++i)
            if (f->data[i] != TAG(0, CAM[0].acq, chk_frames)) ++chk_errors;
        ++chk_frames;
        cur += f->bytes_of_frame;
    }
    if (cur != s.end && cur) ++chk_errors;
}

/* environment readers only advance their consumed position by whole frames (tiny steps); the
 * committed stream is checked once at the end by walking the linear tape */
static void
reader_advance(struct channel_reader* r)
{
    size_t k = ND(uint8_t);
    VASSUME(k >= 1 && k <= NMAX && ring.holds.pos[r->id - 1] + k * FRAME_BYTES <= ring.head);
    ring.holds.pos[r->id - 1] += k * FRAME_BYTES;
    /* consuming notifies the writer (channel_read_unmap) */
    if (sleeping) woken = 1;
}

static void
env_step(void)
{
    if (in_env || main_done || env_steps >= ENV_MAX) return;
    if (verif_lock_is_held(&ring.lock)) return; /* every environment step takes the ring lock */
    uint8_t c = ND(uint8_t);
    if (c == 0) return;
    in_env = 1;
    ++env_steps;
    if (c == 1 && !sink_dead && ring.holds.pos[chk.id - 1] < ring.head) reader_advance(&chk);
    else if (c == 2 && lazy_on && ring.holds.pos[lazy.id - 1] < ring.head) reader_advance(&lazy);
#if SCN == 1
    else if (c == 3 && abort_stage == 0) { src.is_stopping = 1; abort_stage = 1; }
    else if (c == 4 && abort_stage == 1) { ring.is_accepting_writes = 0; abort_stage = 2; if (sleeping) woken = 1; }
#elif SCN == 3
    else if (c == 3 && !sink_dead) {
        /* sink error path (checked against the real sink.c by the sink unit, SCN 1): sig_stop_source;
         * channel_accept_writes(in, 0); channel_read_unmap(in, reader, 0); never reads again */
        src.is_stopping = 1;
        ring.is_accepting_writes = 0;
        if (sleeping) woken = 1;
        sink_dead = 1;
    }
#endif
    else --env_steps;
    in_env = 0;
}

void verif_on_lock_acquire(struct lock* l) { if (!in_env) env_step(); } /* before every atomic channel operation */
void verif_on_lock_release(struct lock* l) {}
void
verif_on_notify(struct condition_variable* cv)
{
    if (sleeping) woken = 1;
}
static int
env_finished(void)
{
    /* the environment has nothing left that could wake the writer */
#if SCN == 1
    if (abort_stage < 2) return 0;
#endif
    if (sink_dead) return 1;
    /* live readers keep reading until drained */
    int chk_drained = chk.id && ring.holds.pos[chk.id - 1] == ring.head && chk.state == ChannelState_Unmapped;
    int lazy_drained = !lazy_on || !lazy.id || (ring.holds.pos[lazy.id - 1] == ring.head && lazy.state == ChannelState_Unmapped);
    return chk_drained && lazy_drained;
}
void
verif_on_wait(struct condition_variable* cv, struct lock* l)
{
    lock_release(l);
    sleeping = 1;
    woken = 0;
    for (int k = 0; k < 2; ++k)
        if (!woken) env_step();
    if (!woken) {
        VASSUME(env_finished() || env_steps >= ENV_MAX);
        if (env_finished()) {
            VASSERT(0, "C07/C09: source thread sleeps forever in channel_write_map (nothing left that could wake it)");
        }
        VASSUME(0);
    }
    sleeping = 0;
    woken = 0;
    VASSUME(!verif_lock_is_held(l));
    lock_acquire(l);
}
/* other platform stubs the source thread uses */
uint64_t
clock_tic(struct clock* c)
{
    env_step();
    return ND(uint64_t);
}
void thread_init(struct thread* t) { t->is_live_ = 0; }
uint8_t thread_create(struct thread* t, void (*p)(void*), void* a) { return 1; }
void thread_join(struct thread* t) {}

/* C08: the runtime derives Running/Armed from the workers' is_running flags, so a worker must
 * not clear its flag while it still has a device call to make */
static int stop_while_flag_cleared;
static void
on_cam_stop(int cam)
{
    if (!main_done && !src.is_running) ++stop_while_flag_cleared;
}
static void sig_filter(const struct video_source_s* s) { ++stop_filter_calls; }
static void
sig_sink(const struct video_source_s* s)
{
    ++stop_sink_calls;
    commits_at_stop_signal = CAM[0].frames_this_run;
}
static void await_reset(const struct video_source_s* s) {}

#if MODE == 2
/* camera with a fully symbolic shape */
static struct ImageShape sym_shape;
#ifdef TWO_FRAMES
/* the camera's shape may change during a running acquisition (re-configuration of a live
 * camera): frame 0 has a fixed 1-byte image (so frame 1's header sits at a concrete offset),
 * frame 1 has the fully symbolic shape; every frame must be sized and described by ITS OWN shape */
static struct ImageShape shape0;
static int frames_served;
#endif
static enum DeviceStatusCode
sym_get_shape(const struct Camera* c, struct ImageShape* s)
{
#ifdef TWO_FRAMES
    *s = frames_served == 0 ? shape0 : sym_shape;
#else
    *s = sym_shape;
#endif
    return Device_Ok;
}
static enum DeviceStatusCode
sym_get_frame(struct Camera* c, void* im, size_t* nbytes, struct ImageInfo* info)
{
    VASSERT(im == (void*)(ring.data + ring.head + sizeof(struct VideoFrame)), "pixel pointer is not right after the header");
#ifdef TWO_FRAMES
    if (frames_served == 0) {
        info->shape = shape0; info->hardware_frame_id = 6; info->hardware_timestamp = 8;
        VASSERT(*nbytes == 1, "size passed to the camera is not the image size (frame 0)");
        ++frames_served;
        return Device_Ok;
    }
    ++frames_served;
#endif
    info->shape = sym_shape;
    info->hardware_frame_id = 7;
    info->hardware_timestamp = 9;
    VASSERT(*nbytes == bytes_of_image(&sym_shape), "size passed to the camera is not the image size");
    return Device_Ok;
}
#endif

int
main(void)
{
    mock_reset();
    struct DeviceManager dm = { 0 };
    struct DeviceIdentifier id;
    memset(&id, 0, sizeof id);
    id.kind = DeviceKind_Camera;
    id.device_id = 0;
    struct Camera* cam = camera_open(&dm, &id);
    VASSUME(cam != 0);
    struct CameraProperties cp;
    memset(&cp, 0, sizeof cp);
    VASSERT(camera_set(cam, &cp) == Device_Ok, "camera_set");
#if MODE == 1
    channel_new(&ring, RING_FRAMES * FRAME_BYTES + 8);
    uint64_t N = ND(uint8_t);
    VASSUME(N >= 1 && N <= NMAX);
    video_source_init(&src, 0, N, &ring, 0, await_reset, sig_filter, sig_sink);
    src.camera = cam;
#if SCN == 2
    CAM[0].fail_frame_at = ND(uint8_t);
    VASSUME(CAM[0].fail_frame_at < (int)N);
#endif
    /* one get_frame call of the run may come back without a frame (*nbytes == 0, a time-out): it must
     * neither count as a frame nor consume a frame id */
    CAM[0].empty_at = ND(int8_t);
    VASSUME(CAM[0].empty_at >= -1 && CAM[0].empty_at <= NMAX);
    /* readers join before the source starts (sink, and optionally a monitor) */
    chk.id = ++ring.holds.n; ring.holds.pos[chk.id - 1] = 0;
    lazy_on = ND(bool_t);
    if (lazy_on) { lazy.id = ++ring.holds.n; ring.holds.pos[lazy.id - 1] = 0; }
    VASSERT(camera_start(cam) == Device_Ok, "camera_start");
    src.is_stopping = 0;
    src.is_running = 1;
    mock_cam_stop_hook = on_cam_stop;
    int ecode = video_source_thread(&src);
    main_done = 1;
    VASSERT(stop_while_flag_cleared == 0, "C08: the source worker cleared is_running before its last device call (camera stop): the runtime reports Armed while the worker is still alive");
    /* the committed stream, in commit order, is the tape [0, head) */
    { struct slice all = { ring.data, ring.data + ring.head }; check_slice(all); }
    int delivered = CAM[0].frames_this_run;
    VASSERT(chk_errors == 0, "C04/C05: committed stream is not frames 0..M-1 with unchanged ids, shape, timestamps and pixel bytes");
    VASSERT(chk_frames == delivered || ring.is_accepting_writes == 0, "C04: a frame the camera delivered was not committed (or committed twice)");
    VASSERT(chk_frames <= delivered, "C04: more frames committed than the camera delivered");
#if SCN == 0
    VASSERT(delivered == (int)N && chk_frames == (int)N, "C04: finite acquisition did not commit exactly N frames");
    VASSERT(ecode == 0, "source thread reported an error without a fault");
    COVER(CAM[0].empties == 1 && N >= 2);
#endif
#if SCN == 2
    VASSERT(delivered == CAM[0].fail_frame_at, "C09: frames acquired after the failing camera call");
    VASSERT(ecode != 0, "C09: camera fault not reported by the source thread");
#endif
    VASSERT(stop_filter_calls == 1 && stop_sink_calls == 1, "C04/C07: filter/sink stop signals not raised exactly once");
    VASSERT(commits_at_stop_signal == delivered, "C04: sink told to stop before the last frame was committed");
    VASSERT(CAM[0].started == 0 && CAM[0].stops == 1, "C07/C09: camera not stopped exactly once when the source thread exits");
    VASSERT(src.is_running == 0 && src.is_stopping == 0, "C07: source flags not reset");
    VASSERT(!verif_lock_is_held(&ring.lock), "ring lock left held");
    VASSERT(CAM[0].viol == 0, "C08/C11: camera protocol violated");
#if SCN == 0
    COVER(chan_blocked_waits >= 1 && chk_frames == (int)N);
    COVER(chk_frames == NMAX);
#endif
#if SCN == 1
    COVER(abort_stage == 2 && verif_wait_count >= 1);
#endif
#if SCN == 3
    COVER(sink_dead);
#endif
    WITNESS_END();
#elif MODE == 2
    /* symbolic shape, ring without readers */
    sym_shape.dims.channels = ND(uint32_t); sym_shape.dims.width = ND(uint32_t);
    sym_shape.dims.height = ND(uint32_t); sym_shape.dims.planes = ND(uint32_t);
    sym_shape.strides.channels = ND(int64_t); sym_shape.strides.width = ND(int64_t);
    sym_shape.strides.height = ND(int64_t); sym_shape.strides.planes = ND(int64_t);
    uint8_t ty = ND(uint8_t);
    VASSUME(ty < SampleTypeCount);
    sym_shape.type = (enum SampleType)ty;
    /* >= 1: a camera that reports an empty image makes the source loop spin (frame never counted) */
    VASSUME(sym_shape.strides.planes >= 1 && sym_shape.strides.planes <= (((int64_t)1) << 37));
    cam->get_shape = sym_get_shape;
    cam->get_frame = sym_get_frame;
    size_t cap = (((size_t)1) << 40);
    memset(&ring, 0, sizeof ring);
    ring.capacity = cap;
    ring.data = malloc(256); /* only 96-byte headers at offsets 0 (and 104) are ever written (mock camera writes no pixels) */
#ifdef TWO_FRAMES
    shape0 = mock_shape(); shape0.dims.width = 1; shape0.strides.height = 1; shape0.strides.planes = 1;
#endif
    VASSUME(ring.data != 0 && ((uintptr_t)ring.data & 7) == 0);
    ring.is_accepting_writes = 1;
    lock_init(&ring.lock);
    ring.head = 0; /* concrete: a symbolic index into a 2^40-byte object cannot be flattened */
#ifdef TWO_FRAMES
    size_t head0 = 104; /* frame 0: 96 + 1 byte rounded up */
    video_source_init(&src, 0, 2, &ring, 0, await_reset, sig_filter, sig_sink);
#else
    size_t head0 = ring.head;
    video_source_init(&src, 0, 1, &ring, 0, await_reset, sig_filter, sig_sink);
#endif
    src.camera = cam;
    VASSERT(camera_start(cam) == Device_Ok, "camera_start");
    src.is_running = 1;
    main_done = 1; /* no environment in this mode (ring without readers) */
    int ecode = video_source_thread(&src);
    VASSERT(ecode == 0, "source thread failed");
    size_t bpt = (ty == SampleType_u8 || ty == SampleType_i8) ? 1 : (ty == SampleType_f32 ? 4 : 2);
    size_t sz = (size_t)sym_shape.strides.planes * bpt;
    if (sz) {
        size_t want = 8 * ((sizeof(struct VideoFrame) + sz + 7) / 8);
        const struct VideoFrame* f = (const struct VideoFrame*)(ring.data + head0);
        VASSERT(ring.head == head0 + want, "C05: committed size is not header + image rounded up to 8");
        VASSERT(f->bytes_of_frame == want, "C05: bytes_of_frame is not header + image rounded up to a multiple of 8");
        VASSERT((f->bytes_of_frame & 7) == 0 && f->bytes_of_frame >= sizeof(struct VideoFrame) + sz && f->bytes_of_frame < sizeof(struct VideoFrame) + sz + 8, "C05: rounding");
        VASSERT(f->shape.dims.width == sym_shape.dims.width && f->shape.dims.height == sym_shape.dims.height && f->shape.dims.channels == sym_shape.dims.channels &&
                  f->shape.dims.planes == sym_shape.dims.planes && f->shape.strides.planes == sym_shape.strides.planes && f->shape.strides.height == sym_shape.strides.height &&
                  f->shape.strides.width == sym_shape.strides.width && f->shape.strides.channels == sym_shape.strides.channels && f->shape.type == sym_shape.type,
                "C05: frame shape differs from the shape the camera reported");
#ifdef TWO_FRAMES
        VASSERT(f->frame_id == 1 && f->hardware_frame_id == 7 && f->timestamps.hardware == 9, "C04: ids / timestamps");
        { const struct VideoFrame* f0 = (const struct VideoFrame*)ring.data;
          VASSERT(f0->bytes_of_frame == 104 && f0->frame_id == 0 && f0->shape.dims.width == 1, "C05: first frame (1-byte image) not framed as 104 bytes"); }
#else
        VASSERT(f->frame_id == 0 && f->hardware_frame_id == 7 && f->timestamps.hardware == 9, "C04: ids / timestamps");
#endif
        VASSERT((((uintptr_t)f) & 7) == 0, "C05: header not 8-byte aligned");
    } else {
        VASSERT(ring.head == head0, "zero-sized image must not be committed");
    }
    COVER(sz % 8 == 3);
    COVER(sz % 8 == 0);
    WITNESS_END();
#endif
    return 0;
}
