/* C10: frame averaging emits the exact mean of each window of consecutive frames.
 *
 * Main flow = the REAL video_filter_thread (filter.c is #included) + frame_iterator.c + two real
 * channels.  Environment (mechanism B, env_step() at every platform stub the filter passes):
 *   writer  commits N <= NMAX input frames (NPX pixels of symbolic value, integer type TYPE) into
 *           filter.in, then raises filter.is_stopping (and, SCN 2, the sink's stop at the same
 *           instant, as video_source_thread does)
 *   sink    a reader on the output ring that consumes whole frames and checks them
 * The output ring holds ONE frame (+8 bytes): every accumulator after the first lands on memory
 * that previously held another frame ("previously used ring memory"), and before the run the
 * output ring is filled with arbitrary bytes.
 * Oracle per emitted frame j: type f32, frame_id = id of input j*K, size = 8*ceil((96+4*NPX)/8),
 * pixel = (float)S * (1.0f/K) in IEEE single (S = exact integer sum of the window), count =
 * floor(N/K) complete windows + at most one trailing frame.
 * SCN 4 (C09, sink died): at an arbitrary boundary the sink dies the way sink.c's storage-error path
 * does (it refuses writes on the output ring and consumes nothing more); the filter must go on
 * draining its input until the source asks it to stop — a filter that gives up leaves the source
 * blocked on a full filter queue for good — and must not leave frames in its input queue.
 * SCN 1: ordering / mean / count.   SCN 2 (flush race): the sink abstraction "after being told
 * to stop, drain until the first empty map, then the storage is stopped" must still see every
 * frame the filter commits.
 */
#include "verif.h"
#include "plat_seq.h"
#include <stdlib.h>
#include <string.h>
#include "device/props/components.h"
#include "filter.c"

#ifndef K
#define K 2
#endif
#ifndef NMAX
#define NMAX 5
#endif
#ifndef NPX
#define NPX 1
#endif
#ifndef TYPE
#define TYPE 0 /* SampleType_u8 */
#endif
#ifndef POLL_MAX
#define POLL_MAX 3
#endif
#ifndef ENV_MAX
#define ENV_MAX 12
#endif
#if TYPE == 0 || TYPE == 2
typedef uint8_t px_t;
#define BPP 1
#else
typedef uint16_t px_t;
#define BPP 2
#endif
#define IN_BYTES (8 * ((sizeof(struct VideoFrame) + NPX * BPP + 7) / 8))
#define OUT_BYTES (8 * ((sizeof(struct VideoFrame) + NPX * 4 + 7) / 8))
#define TAPE_INIT ((NMAX / K + 2) * OUT_BYTES)

static struct video_filter_s flt;
static struct channel out;
static int in_env, env_steps, main_done, polls;
static int N, written, writer_done;
static int32_t pix[NMAX][NPX]; /* what the camera delivered (as signed ints covering every type) */
static struct channel_reader snk;
static int emitted, emit_errors, sink_told_to_stop, storage_stopped, lost_after_stop, filter_blocked_on_out;

#ifdef CONCRETE_PX
/* schedules symbolic, pixel values concrete and distinct per frame (1,2,4,...: a sum identifies
 * exactly which frames were added); the arithmetic for ALL pixel values is SCN 3 */
static int px_counter;
static int32_t
draw_px(void)
{
    return (int32_t)(1 << (px_counter++ % 7));
}
#else
static int32_t
draw_px(void)
{
#if TYPE == 0
    return (int32_t)ND(uint8_t);
#elif TYPE == 2
    return (int32_t)(int8_t)ND(uint8_t);
#elif TYPE == 3
    return (int32_t)(int16_t)ND(uint16_t);
#else
    return (int32_t)ND(uint16_t);
#endif
}

/* the input tape is pre-filled with the frames the (abstract) source commits; committing frame i
 * advances the committed cursor of filter.in */
#endif
static void
prefill(void)
{
    for (int n = 0; n < NMAX; ++n) {
        struct VideoFrame* f = (struct VideoFrame*)(flt.in.data + (size_t)n * IN_BYTES);
        memset(f, 0, sizeof *f);
        f->bytes_of_frame = IN_BYTES;
        f->shape.dims.channels = 1; f->shape.dims.width = NPX; f->shape.dims.height = 1; f->shape.dims.planes = 1;
        f->shape.strides.channels = 1; f->shape.strides.width = 1; f->shape.strides.height = NPX; f->shape.strides.planes = NPX;
#ifdef SHAPE_CHANGE_AT
        /* the camera's shape changes in the middle of the run (same pixel count, transposed): frames
         * from SHAPE_CHANGE_AT on are 1 x NPX instead of NPX x 1 */
        if (n >= SHAPE_CHANGE_AT) { f->shape.dims.width = 1; f->shape.dims.height = NPX; f->shape.strides.height = 1; }
#endif
        f->shape.type = (enum SampleType)TYPE;
        f->frame_id = (uint64_t)n;
        f->timestamps.hardware = 100 + (uint64_t)n;
        for (int i = 0; i < NPX; ++i) {
            pix[n][i] = draw_px();
#if BPP == 1
            f->data[i] = (uint8_t)pix[n][i];
#else
            ((uint16_t*)f->data)[i] = (uint16_t)pix[n][i];
#endif
        }
    }
}
static void
writer_step(void)
{
    if (writer_done) return;
    if (written == N) {
        /* source wind-down (source.c Finalize + acquire.c callbacks): raise the filter's stop request,
         * wait for the filter thread to finish (sig_source_stop_sink joins it; checked against the real
         * acquire.c by the whole-runtime harness), and only then tell the sink to stop */
        flt.is_stopping = 1;
        writer_done = 1;
        return;
    }
    flt.in.head += IN_BYTES;
    ++written;
}

static struct VideoFrame seen_hdr[NMAX / K + 2];
static float seen_px[NMAX / K + 2][NPX];
#ifdef SHAPE_CHANGE_AT
/* shape-change runs: what happens to the window that is open when the shape changes is not
 * pinned down by the property; every frame that IS emitted must be the exact mean of K consecutive
 * input frames of one shape, carry the id of the first of them and that shape, and ids must
 * increase (no frame counted twice) */
static int last_first = -1;
static void
check_emitted(int j)
{
    const struct VideoFrame* f = &seen_hdr[j];
    int first = (int)f->frame_id;
    if (f->bytes_of_frame != OUT_BYTES || f->shape.type != SampleType_f32 || f->shape.strides.planes != NPX) ++emit_errors;
    if (first <= last_first || first < 0 || first >= N) { ++emit_errors; return; }
    if (last_first >= 0 && first < last_first + K) ++emit_errors; /* windows overlap */
    last_first = first;
    int complete = first + K <= N;
    int before = first < SHAPE_CHANGE_AT;
    if (complete && before && first + K > SHAPE_CHANGE_AT) ++emit_errors; /* a window that mixes the two shapes */
    if ((before ? (f->shape.dims.width != NPX || f->shape.dims.height != 1) : (f->shape.dims.width != 1 || f->shape.dims.height != NPX))) ++emit_errors;
    if (complete) {
        for (int i = 0; i < NPX; ++i) {
            int32_t S = 0;
            for (int w = 0; w < K; ++w)
                for (int q = 0; q < NMAX; ++q)
                    if (q == first + w) S += pix[q][i];
            float want = (float)S * (1.0f / (float)K);
            if (!(seen_px[j][i] == want)) ++emit_errors;
        }
    }
}
#else
static void
check_emitted(int j)
{
    const struct VideoFrame* f = &seen_hdr[j];
    int first = j * K;
    int complete = (first + K <= N);
    if (f->bytes_of_frame != OUT_BYTES || f->shape.type != SampleType_f32 || f->shape.dims.width != NPX || f->shape.strides.planes != NPX) ++emit_errors;
    if (f->frame_id != (uint64_t)first) ++emit_errors;
    if (first >= N) { ++emit_errors; return; } /* more frames than windows */
    if (complete) {
        for (int i = 0; i < NPX; ++i) {
            int32_t S = 0;
            for (int w = 0; w < K; ++w) S += pix[first + w][i];
            float want = (float)S * (1.0f / (float)K);
            if (!(seen_px[j][i] == want)) ++emit_errors;
        }
    }
    /* a trailing incomplete window may be emitted un-normalised: value not constrained */
}
#endif

/* sink abstraction: consumes whole frames; once told to stop, the first time it finds the queue
 * empty it stops the storage (the sink thread's final flush loop) */
static size_t sink_pos_at_stop;
static void
sink_step(void)
{
    if (storage_stopped) return;
    size_t* pos = &out.holds.pos[snk.id - 1];
    if (*pos < out.head) {
        /* map + append + unmap of everything available: the storage sees the frames NOW, so what it
         * sees is snapshotted now (slot k of the linear tape is the k-th emitted frame) and compared
         * with the oracle at the end of the run */
        for (int k = 0; k <= NMAX / K + 1; ++k)
            if (*pos <= (size_t)k * OUT_BYTES && (size_t)k * OUT_BYTES < out.head) {
                const struct VideoFrame* f = (const struct VideoFrame*)(out.data + (size_t)k * OUT_BYTES);
                seen_hdr[k].bytes_of_frame = f->bytes_of_frame; seen_hdr[k].frame_id = f->frame_id;
                seen_hdr[k].shape.type = f->shape.type; seen_hdr[k].shape.dims.width = f->shape.dims.width; seen_hdr[k].shape.dims.height = f->shape.dims.height; seen_hdr[k].shape.strides.planes = f->shape.strides.planes;
                for (int i = 0; i < NPX; ++i) seen_px[k][i] = ((const float*)f->data)[i];
                ++emitted;
            }
        *pos = out.head;
    } else if (sink_told_to_stop) {
        storage_stopped = 1;
        sink_pos_at_stop = *pos;
    }
}

static int sink_dead, die_opps;
/* SCN 4: the moment of the sink's death is fixed per harness instance: the DIE_AT-th scheduling
 * boundary (a symbolic choice at every boundary exhausted 22 GB) */
#ifndef DIE_AT
#define DIE_AT 0
#endif
static int die_now(void) { return !sink_dead && die_opps++ == DIE_AT; }
static void
sink_dies(void)
{
    /* sink.c, error path: refuse writes on its queue (wakes a blocked writer), stop consuming */
    if (sink_dead) return;
    sink_dead = 1;
    out.is_accepting_writes = 0;
    storage_stopped = 1;
}
static void
env_step(void)
{
    if (in_env || main_done || env_steps >= ENV_MAX) return;
    if (verif_lock_is_held(&flt.in.lock) || verif_lock_is_held(&out.lock)) return;
    uint8_t c = ND(uint8_t);
    if (c == 0) return;
    in_env = 1;
    ++env_steps;
    if (c == 1) writer_step();
    else sink_step();
    in_env = 0;
}

/* Scheduling boundaries.  The filter only observes its peers through (1) what channel_read_map
 * returns, (2) the stop flag at the loop head, (3) space in the output ring; peers observe it
 * through what it has committed to the output ring.  Input commits and the stop flag raised
 * anywhere inside an iteration are indistinguishable from the same events at the preceding
 * sleep, so the writer acts at the sleep boundaries (any number of frames per boundary); the
 * sink may act right after every operation on the output ring (in particular right after a
 * publish) and at the sleeps. */
void verif_on_lock_acquire(struct lock* l) {}
void
verif_on_lock_release(struct lock* l)
{
    if (!in_env && !main_done && l == &out.lock && ND(bool_t)) {
        in_env = 1;
        sink_step();
        in_env = 0;
    }
#if SCN == 4
    if (!in_env && !main_done && l == &out.lock && die_now()) sink_dies();
#endif
}
void verif_on_notify(struct condition_variable* cv) {}
void
verif_on_wait(struct condition_variable* cv, struct lock* l)
{
    /* the filter waits for space in the output ring: the sink consumes (if it still runs) */
#if SCN == 4
    if (sink_dead) return; /* the refusal has woken the writer: the wait loop re-tests the flag */
    if (die_now()) { sink_dies(); return; }
#endif
    VASSUME(!storage_stopped);
    lock_release(l);
    in_env = 1; sink_step(); in_env = 0;
    ++filter_blocked_on_out;
    VASSUME(filter_blocked_on_out <= NMAX);
    lock_acquire(l);
}
void clock_init(struct clock* c) { c->origin = 0; }
uint64_t clock_tic(struct clock* c) { return 0; }
void
clock_sleep_ms(struct clock* c, float ms)
{
    ++polls;
    VASSUME(polls <= POLL_MAX);
    in_env = 1;
#ifdef ARRIVALS
    /* arrival pattern fixed per harness instance: nibble i of ARRIVALS = number of input frames
     * that arrive during the i-th sleep; the stop request follows the last frame (same sleep if
     * STOP_SAME, else the next one).  Concrete arrivals keep every frame pointer concrete (with
     * symbolic arrivals the formula exceeded 24 GB); the sink's timing stays symbolic. */
    {
        int g = (int)((ARRIVALS >> (4 * (polls - 1))) & 15);
        for (int i = 0; i < g; ++i) writer_step();
        if (written == N && (STOP_SAME || g == 0)) writer_step(); /* raises the stop request */
    }
#else
    for (int i = 0; i <= NMAX; ++i)
        if (ND(bool_t)) writer_step(); /* a group of input frames arrives (and possibly the stop request) */
#endif
#if SCN == 4
    if (die_now()) sink_dies(); else
#endif
    if (ND(bool_t)) sink_step();
    in_env = 0;
}
void thread_init(struct thread* t) { t->is_live_ = 0; }
uint8_t thread_create(struct thread* t, void (*p)(void*), void* a) { return 1; }
void thread_join(struct thread* t) {}
void event_init(struct event* e) { e->state_ = 0; }
void event_destroy(struct event* e) {}
void event_notify_all(struct event* e) { e->state_ = 1; }
void event_wait(struct event* e) { VASSUME(e->state_); e->state_ = 0; }

#if SCN == 3
/* arithmetic kernel: accumulate() K frames of fully symbolic pixels into a zeroed f32 frame, then
 * normalize(1/K): every pixel == (float)S * (1.0f/K) */
static struct { struct VideoFrame f; px_t d[NPX]; } inb[K];
static struct { struct VideoFrame f; float d[NPX]; } accb;
int
main(void)
{
    memset(&accb, 0, sizeof accb);
    accb.f.shape.type = SampleType_f32;
    accb.f.shape.strides.planes = NPX;
    int32_t S[NPX];
    for (int i = 0; i < NPX; ++i) S[i] = 0;
    for (int w = 0; w < K; ++w) {
        memset(&inb[w], 0, sizeof inb[w]);
        inb[w].f.shape.type = (enum SampleType)TYPE;
        inb[w].f.shape.strides.planes = NPX;
        for (int i = 0; i < NPX; ++i) {
            int32_t v = draw_px();
            inb[w].d[i] = (px_t)v;
            S[i] += v;
        }
        VASSERT(accumulate(&accb.f, &inb[w].f) == 1, "accumulate refused an integer sample type");
    }
    normalize(&accb.f, 1.0f / (float)K);
    for (int i = 0; i < NPX; ++i)
        VASSERT(accb.d[i] == (float)S[i] * (1.0f / (float)K), "C10: pixel is not the float mean of the k input pixels");
    WITNESS_END();
    return 0;
}
#else
int
main(void)
{
#ifndef OUT_CAP_FRAMES
#define OUT_CAP_FRAMES 1
#endif
    channel_new(&out, OUT_CAP_FRAMES * OUT_BYTES + 8);
    /* previously used memory: the pixel area of every output slot holds arbitrary bytes (headers are
     * always fully written by the filter) */
    for (size_t k = 0; k < TAPE_INIT / OUT_BYTES; ++k)
        for (size_t i = 0; i < NPX; ++i) ((float*)(out.data + k * OUT_BYTES + sizeof(struct VideoFrame)))[i] = ND(float);
    video_filter_init(&flt, 0, (NMAX + 1) * IN_BYTES + 8, &out);
    video_filter_configure(&flt, K);
#ifdef ARRIVALS
    N = (int)((ARRIVALS & 15) + ((ARRIVALS >> 4) & 15) + ((ARRIVALS >> 8) & 15) + ((ARRIVALS >> 12) & 15));
#else
    N = ND(uint8_t);
    VASSUME(N >= 1 && N <= NMAX);
#endif
    snk.id = ++out.holds.n; out.holds.pos[snk.id - 1] = 0; /* the sink registers before the run */
    prefill();
    flt.is_stopping = 0;
    flt.is_running = 1;
    int rc = video_filter_thread(&flt);
    main_done = 1;
#if SCN == 4
    VASSERT(writer_done, "C09: the filter thread exited before the source asked it to stop (after the sink died): the source can block for good on the filter's queue");
    VASSERT(flt.in.holds.pos[flt.reader.id - 1] == flt.in.head, "C09: frames left in the filter's input queue after it finished (they would be written first by the next acquisition)");
    VASSERT(flt.is_running == 0 && flt.is_stopping == 0, "filter flags not reset");
    COVER(sink_dead || die_opps <= DIE_AT);
    WITNESS_END();
    return 0;
#else
    VASSERT(writer_done, "harness: environment writer did not finish (cut by the poll bound)");
    VASSERT(rc == 0, "filter thread reported an error");
    /* the filter thread has finished: now the sink is told to stop and does its final flush */
    sink_told_to_stop = 1;
    in_env = 1; sink_step(); sink_step(); in_env = 0;
    for (int j = 0; j < NMAX / K + 2; ++j)
        if (j < emitted) check_emitted(j);
    int queued = storage_stopped && out.head > sink_pos_at_stop;
    VASSERT(emit_errors == 0, "C10: an emitted frame is not the f32 mean of its window (type, size, frame id or pixel value wrong)");
    int complete = N / K, trailing = (N % K) ? 1 : 0;
#if SCN == 1 && defined(SHAPE_CHANGE_AT)
    VASSERT(emitted <= complete + trailing, "C10: more frames emitted than windows (input frame counted twice)");
    VASSERT(emitted >= (N - SHAPE_CHANGE_AT - 1) / K, "C10: a complete window of frames after the shape change was not emitted");
#elif SCN == 1
    VASSERT(emitted >= complete, "C10: a complete window was not emitted (input frame skipped)");
    VASSERT(emitted <= complete + trailing, "C10: more frames emitted than windows (input frame counted twice)");
#else
    VASSERT(queued == 0, "C10: the filter committed a frame after the sink's final flush (storage already stopped): window lost");
    if (storage_stopped) VASSERT(emitted >= complete, "C10: storage stopped before every complete window reached it");
#endif
    VASSERT(flt.is_running == 0 && flt.is_stopping == 0, "filter flags not reset");
#ifndef SHAPE_CHANGE_AT
    COVER(emitted == complete + trailing);
#else
    COVER(emitted >= 1);
#endif
#if SCN == 2
    COVER(storage_stopped);
#endif
    WITNESS_END();
    return 0;
#endif /* SCN != 4 */
}
#endif
