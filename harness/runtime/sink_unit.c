/* Sink-thread unit (G-SNK): the REAL video_sink_thread (sink.c is #included) + vfslice.c +
 * throttler.c + HAL storage.c over the mock storage, on the CONTRACT MODEL of the channel
 * (env/chan_contract.c: exactly the guarantees C01-C03 establish for the real channel.c), against an environment
 * writer that is any well-formed source: it commits N <= NMAX tagged frames through the real
 * channel_write_map/unmap at arbitrary boundaries and raises sink.is_stopping only after its last
 * commit; an optional monitor reader consumes partially.  Mechanism (B): env_step() is called
 * from every platform / clock / device stub the sink thread passes through.
 *   SCN 0  plain: everything committed reaches storage exactly once, in order, bit-exact;
 *          storage stopped exactly once after the last append; flags reset
 *   SCN 1  storage fault at a symbolic append index: nothing appended afterwards, the source is
 *          told to stop, storage stopped, thread exits
 *   SCN 2  abort: the writer stops early (refused writes) -> appended = gap-free prefix
 * write_delay_ms is 0 or positive (then clock_cmp answers arbitrarily: any subset of frames is
 * "old enough").  The polling loop is cut after POLL_MAX sleeps (environment completes within
 * POLL_MAX polls).
 */
#include "verif.h"
#include "plat_seq.h"
#include <stdlib.h>
#include <string.h>
#ifndef NMAX
#define NMAX 2
#endif
#define MOCK_MAX_FRAMES (NMAX + 2)
#define MOCK_APPEND_LOG (NMAX + 2)
#include "mock_devices.h"
#include "sink.c"

#ifndef RING_FRAMES
#define RING_FRAMES 2
#endif
#ifndef POLL_MAX
#define POLL_MAX 3
#endif
#ifndef ENV_MAX
#define ENV_MAX 10
#endif

static struct video_sink_s snk;
static int in_env, env_steps, main_done, polls;
static int N, written, writer_mapped, writer_done, stop_source_calls;
static struct channel_reader mon;
static int mon_on;

/* the tape of the input channel is pre-filled with the N frames the (abstract) source will
 * commit; committing frame i just advances the committed cursor (what channel_write_unmap does) */
static void
prefill(void)
{
    for (int i = 0; i < NMAX; ++i) {
        struct VideoFrame* f = (struct VideoFrame*)(snk.in.data + (size_t)i * FRAME_BYTES); /* concrete offset: i is a loop constant */
        memset(f, 0, sizeof *f);
        f->bytes_of_frame = FRAME_BYTES;
        f->shape = mock_shape();
        f->frame_id = (uint64_t)i;
        f->hardware_frame_id = (uint64_t)i;
        for (int k = 0; k < PX; ++k) f->data[k] = TAG(0, 0, i);
    }
}
static void
writer_step(void)
{
    if (writer_done) return;
    if (written == N) {
        /* after the last commit: tell the sink to stop (what video_source_thread does) */
        snk.is_stopping = 1;
        writer_done = 1;
        return;
    }
#if SCN == 2
    if (!snk.in.is_accepting_writes) { writer_done = 1; snk.is_stopping = 1; return; } /* writes refused: source winds down */
#endif
    /* ring full? then the source would block: not now */
    size_t mn = snk.in.head;
    if (snk.reader.id && snk.in.holds.pos[snk.reader.id - 1] < mn) mn = snk.in.holds.pos[snk.reader.id - 1];
    if (mon.id && snk.in.holds.pos[mon.id - 1] < mn) mn = snk.in.holds.pos[mon.id - 1];
    if ((snk.in.head - mn) + FRAME_BYTES > snk.in.capacity) return;
    snk.in.head += FRAME_BYTES;
    ++written;
}

static void
env_step(void)
{
    if (in_env || main_done || env_steps >= ENV_MAX) return;
    if (verif_lock_is_held(&snk.in.lock)) return;
    uint8_t c = ND(uint8_t);
    if (c == 0) return;
    in_env = 1;
    ++env_steps;
    if (c == 1) writer_step();
    else if (c == 2 && mon_on) {
        /* monitoring client: registers, then consumes any number of whole frames */
        if (!mon.id) { mon.id = ++snk.in.holds.n; snk.in.holds.pos[mon.id - 1] = 0; }
        size_t k = ND(uint8_t);
        VASSUME(k <= NMAX && snk.in.holds.pos[mon.id - 1] + k * FRAME_BYTES <= snk.in.head);
        snk.in.holds.pos[mon.id - 1] += k * FRAME_BYTES;
    }
#if SCN == 2
    else if (c == 3) snk.in.is_accepting_writes = 0;
#endif
    else --env_steps;
    in_env = 0;
}

void verif_on_lock_acquire(struct lock* l) { if (!in_env) env_step(); } /* before every atomic channel operation */
void verif_on_lock_release(struct lock* l) { if (!in_env) { env_step(); env_step(); } } /* and right after it: a peer can do several things in one window (e.g. commit its last frame AND raise the stop flag between an empty map and the sink's next read of the flag) */
void verif_on_notify(struct condition_variable* cv) {}
void
verif_on_wait(struct condition_variable* cv, struct lock* l)
{
    /* only the environment writer can get here (ring full): trying later is the same schedule */
    VASSUME(0);
}
/* clock / sleep stubs (scheduling boundaries) */
void clock_init(struct clock* c) { c->origin = 0; env_step(); }
void clock_shift_ms(struct clock* c, double ms) {}
uint64_t clock_tic(struct clock* c) { return 0; }
int8_t
clock_cmp(struct clock* c, uint64_t ts)
{
    int8_t r = ND(int8_t);
    VASSUME(r >= -1 && r <= 1);
    /* a frame is "too new" only finitely often (time passes): at most twice per run; without this
     * the sink's inner loop spins on the same mapped frames without bound */
    static int too_new;
    if (r > 0) { ++too_new; VASSUME(too_new <= 2); }
    return r;
}
void
clock_sleep_ms(struct clock* c, float ms)
{
    ++polls;
    VASSUME(polls <= POLL_MAX); /* environment completes within POLL_MAX polls */
    env_step();
    env_step();
    env_step();
}
void thread_init(struct thread* t) { t->is_live_ = 0; }
uint8_t thread_create(struct thread* t, void (*p)(void*), void* a) { return 1; }
void thread_join(struct thread* t) {}

static void sig_stop_source(const struct video_sink_s* s) { ++stop_source_calls; }
/* C04/C02: storage reads the packet in place, so the sink's reader must still have it mapped while
 * the device works on it (released first, the region is free for the writer: frames torn or lost
 * under back-pressure) */
static void
on_append(int sto, const struct VideoFrame* frames, size_t nbytes)
{
    VASSERT(snk.reader.state == ChannelState_Mapped, "C04: packet handed to storage after its region was released to the writer (zero-copy window no longer mapped)");
}

int
main(void)
{
    mock_reset();
    struct DeviceManager dm = { 0 };
    struct DeviceIdentifier id;
    memset(&id, 0, sizeof id);
    id.kind = DeviceKind_Storage;
    id.device_id = NCAM;
    video_sink_init(&snk, 0, RING_FRAMES * FRAME_BYTES + 8, sig_stop_source);
    static struct StorageProperties sp;
#ifdef FIX_DELAY0
    float delay = 0.0f;
#else
    float delay = ND(bool_t) ? 0.0f : 5.0f;
#endif
    VASSERT(video_sink_configure(&snk, &dm, &id, &sp, delay) == Device_Ok, "sink configure");
    N = ND(uint8_t);
    VASSUME(N >= 1 && N <= NMAX);
    STO[0].expect_cam = 0; STO[0].expect_acq = 0;
    mock_append_hook = on_append;
#if SCN == 1
    STO[0].fail_append_at = ND(uint8_t);
    VASSUME(STO[0].fail_append_at <= NMAX);
#endif
    mon_on = ND(bool_t);
    prefill();
    VASSERT(storage_start(snk.storage) == Device_Ok, "storage_start");
    channel_accept_writes(&snk.in, 1);
    snk.is_stopping = 0;
    snk.is_running = 1;
    /* the sink registers its reader with its first map, inside the thread */
    int rc = video_sink_thread(&snk);
    main_done = 1;
#if SCN == 0
    VASSERT(writer_done, "harness: environment writer did not finish (cut by the poll bound)");
#endif
    /* The input tape is linear and never rewritten, so "every committed frame reaches storage exactly
     * once, in order, bit-exact, in packets of whole frames" <=> the appended packets tile the tape
     * [0, total) consecutively and each is a whole number of frames. */
    size_t total = 0;
    VASSERT(mock_napp <= MOCK_APPEND_LOG, "more appends than frames + 2");
    for (int i = 0; i < MOCK_APPEND_LOG; ++i)
        if (i < mock_napp) {
            VASSERT(mock_app_beg[i] == snk.in.data + total, "C04: storage received frames out of order, with a gap or twice (packet does not start where the previous one ended)");
            VASSERT(mock_app_len[i] % FRAME_BYTES == 0 && mock_app_len[i] > 0, "C05: packet is not a whole number of frames");
            total += mock_app_len[i];
        }
    STO[0].frames_this_run = (int)(total / FRAME_BYTES);
    VASSERT(STO[0].appended_after_fail == 0, "C09: append after a failed append");
    VASSERT(STO[0].stops + STO[0].failed == 1 && STO[0].started == 0, "C04/C09: storage not stopped exactly once (or left running) when the sink thread exits");
    VASSERT(STO[0].viol == 0, "C08: storage protocol violated (append outside start..stop / stop without start)");
    VASSERT(snk.is_running == 0 && snk.is_stopping == 0, "C07: sink flags not reset");
    VASSERT(!verif_lock_is_held(&snk.in.lock), "ring lock left held");
#if SCN == 0
    VASSERT(rc == 0, "sink thread reported an error without a fault");
    VASSERT(STO[0].frames_this_run == written && written == N, "C04: not every committed frame reached storage (tail lost or frame dropped)");
    VASSERT(stop_source_calls == 0, "source told to stop without a fault");
#elif SCN == 1
    if (STO[0].failed) {
        VASSERT(rc != 0, "C09: storage fault not reported by the sink thread");
        VASSERT(stop_source_calls == 1, "C09: source not told to stop after a storage fault");
        VASSERT(snk.in.is_accepting_writes == 0, "C09: a sink that died on a storage fault still accepts writes (a source blocked on a full queue would never return)");
    }
#elif SCN == 2
    VASSERT(STO[0].frames_this_run == written, "C07: storage did not receive exactly the committed prefix");
#endif
#if SCN == 0
    COVER(STO[0].frames_this_run == NMAX && mock_napp >= 2);
    COVER(mon_on && STO[0].frames_this_run == N);
    COVER(polls >= 1);
#ifndef FIX_DELAY0
    COVER(delay > 0 && STO[0].frames_this_run == N);
#endif
#elif SCN == 1
    COVER(STO[0].failed && STO[0].frames_this_run >= 1);
    COVER(!STO[0].failed);
#else
    COVER(!snk.in.is_accepting_writes && written < N);
#endif
    WITNESS_END();
    return 0;
}
