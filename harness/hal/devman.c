/* C12: device selection and enumeration — the C translation (ir2c, exception-unwinding mode) of
 * the real device.manager.cpp entry points
 *     device_manager_select / _select_first / _select_default / (static) _select_inner_
 *     device_manager_get, device_manager_get_driver, device_manager_count,
 *     device_manager_init -> DeviceManagerV0::init, device_manager_destroy (MODE 4)
 * over models of the C++ runtime pieces they call.  THE REGULAR-EXPRESSION ENGINE IS AN ORACLE:
 * std::basic_regex::_M_compile either throws (malformed pattern: symbolic) or records the pattern
 * text and the syntax flags; std::__detail::__regex_algo_impl answers an arbitrary but fixed bit
 * per enumerated device.  What is decided is everything AROUND the engine: which pattern text and
 * flags reach it (case-insensitive, whole-name mode), that candidates are tried in enumeration
 * order and only for the requested kind, that the first hit wins, that the empty pattern takes any
 * device of the kind, that every exception (bad pattern, out-of-range index, NULL handles) is
 * turned into an error status before the C boundary, and that no vector is indexed out of range.
 *
 * MODE 1  select:   arbitrary manager with 0..NID devices, arbitrary kind, pattern bytes (<= PMAX,
 *                   any content incl. NULs, NULL pointer), compile success/failure symbolic
 * MODE 2  get / get_driver / count: arbitrary index / driver_id, NULL handles
 * MODE 3  select_first / select_default
 * MODE 4  init (enumeration): any subset of the 6 driver libraries absent, 0..2 devices each,
 *         describe failing for an arbitrary device; then destroy
 */
#include "verif.h"
#include <stdlib.h>
#include <string.h>
#include <stdint.h>
#include <stdarg.h>
#include <stdio.h>

#ifndef NID
#define NID 3
#endif
#ifndef PMAX
#define PMAX 3
#endif
#ifndef NAMEMAX
#define NAMEMAX 2
#endif

/* ---- layout mirrors (checked against the generated code by props/_dm_common.py: element size
 *      268, identifier at +4, sizeof(DeviceIdentifier) == 264) ---- */
struct ident { uint8_t driver_id, device_id; uint32_t kind; char name[256]; };
struct enum_result { uint32_t status; struct ident id; };
struct vec { char *beg, *end, *cap; };
struct manager { struct vec identifiers, drivers; uint32_t state; /* 0 Initialized, 1 Shutdown */ };
struct dm_handle { struct manager* impl; };
struct driver {
    uint32_t (*device_count)(struct driver*);
    uint32_t (*describe)(const struct driver*, struct ident*, uint64_t);
    uint32_t (*open)(struct driver*, uint64_t, void**);
    uint32_t (*close)(struct driver*, void*);
    uint32_t (*shutdown)(struct driver*);
};
_Static_assert(sizeof(struct ident) == 264 && sizeof(struct enum_result) == 268 && sizeof(struct manager) == 56, "layout");

/* ---- translated entry points (all pointers are char* in the generated C) ---- */
uint32_t device_manager_select(char* self, uint32_t kind, char* name, uint64_t n, char* out);
uint32_t device_manager_select_first(char* self, uint32_t kind, char* out);
uint32_t device_manager_select_default(char* self, uint32_t kind, char* out);
uint32_t device_manager_get(char* out, char* self, uint32_t index);
char* device_manager_get_driver(char* self, char* ident);
uint32_t device_manager_count(char* self);
uint32_t device_manager_init(char* self, char* reporter);
uint32_t device_manager_destroy(char* self);
extern char* verif_exn;

/* ---- exception objects: { vtable, message }; slot 2 of the vtable is what() ---- */
struct exn { char** vt; const char* msg; };
static char* exn_what(char* e) { return (char*)((struct exn*)e)->msg; }
static char* exn_vtable[4] = { 0, 0, (char*)exn_what, 0 };
static struct exn thrown_by_lib; /* thrown by a library model (regex_error, out_of_range, ...) */
static int n_alloc_exn, n_free_exn;
char g__ZTISt9exception[8], g__ZTISt13runtime_error[8], g___libc_single_threaded[1] = { 1 };
char* __cxa_allocate_exception(uint64_t n) { ++n_alloc_exn; char* p = malloc(16); VASSUME(p != 0); return p; }
void __cxa_free_exception(char* p) { ++n_free_exn; free(p); }
char* __cxa_begin_catch(char* p) { return p; }
void __cxa_end_catch(void) {}
/* std::runtime_error.  what() of a caught exception is handed to the logger AS THE FORMAT with no
 * arguments (LOGE(e.what()) in every barrier of the unit), so a message must not contain a
 * conversion.  Whether it does is determined where the exception is constructed (there the text is
 * a concrete literal or a string the unit has just built); the logger checks that a message with
 * a conversion is never used as its format.  (Walking the text inside the logger instead made
 * every walk symbolic, because a catch block sees the exceptions of several throw sites.) */
#define MSGMAX 96
static const char* last_msg;      /* message of the exception constructed last */
static int last_msg_has_conv;
static char msg_copy[MSGMAX + 1];
static int
has_conversion(const char* m, uint64_t n)
{
    int r = 0;
    for (uint64_t i = 0; i < MSGMAX; ++i)
        if (i < n && m[i] == '%' && !(i + 1 < n && m[i + 1] == '%') && !(i > 0 && m[i - 1] == '%')) r = 1;
    return r;
}
void
_ZNSt13runtime_errorC1EPKc(char* self, char* msg)
{
    /* the real class copies the text; the model keeps the pointer (every such message in the unit is a
     * literal or a buffer of the function that also catches the exception) */
    uint64_t n = 0;
    for (int i = 0; i < MSGMAX; ++i) { if (msg[n] == 0) break; ++n; }
    ((struct exn*)self)->vt = exn_vtable; ((struct exn*)self)->msg = msg;
    last_msg = msg; last_msg_has_conv = has_conversion(msg, n);
}
struct sstr_view { char* p; uint64_t size; };
void
_ZNSt13runtime_errorC1ERKNSt7__cxx1112basic_stringIcSt11char_traitsIcESaIcEEE(char* self, char* str)
{
    const char* p = ((struct sstr_view*)str)->p; uint64_t n = ((struct sstr_view*)str)->size;
    VASSERT(n <= MSGMAX, "harness bound: exception message longer than MSGMAX");
    for (uint64_t i = 0; i < MSGMAX; ++i)
        if (i < n) msg_copy[i] = p[i];
    msg_copy[n] = 0;
    ((struct exn*)self)->vt = exn_vtable; ((struct exn*)self)->msg = msg_copy;
    last_msg = msg_copy; last_msg_has_conv = has_conversion(msg_copy, n);
}
void _ZNSt13runtime_errorD1Ev(char* self) {}
static void lib_throw(const char* what) { thrown_by_lib.vt = exn_vtable; thrown_by_lib.msg = what; verif_exn = (char*)&thrown_by_lib; }
void _ZSt24__throw_out_of_range_fmtPKcz(char* fmt, ...) { lib_throw("out_of_range"); }
void _ZSt20__throw_length_errorPKc(char* m) { lib_throw("length_error"); }
void _ZSt19__throw_logic_errorPKc(char* m) { lib_throw("logic_error"); }
void _ZSt17__throw_bad_allocv(void) { lib_throw("bad_alloc"); }
void _ZSt28__throw_bad_array_new_lengthv(void) { lib_throw("bad_array_new_length"); }
void __clang_call_terminate(char* e) { VASSERT(0, "C12: std::terminate reached (exception escaped a noexcept region)"); }

/* ---- heap: the two vectors of the manager get TYPED storage (arrays of identifiers / of driver
 * pointers) from static pools: a pointer stored into a malloc'ed byte array comes back as an
 * opaque value, the driver loop then has no concrete bounds and symex unrolls 9 x 9 x 9 ---- */
struct ident_; struct driver;
#define POOLN 5
#define POOLCAP 8
struct enum_result_ { uint32_t status; uint8_t driver_id, device_id; uint32_t kind; char name[256]; };
static struct enum_result_ pool_er[POOLN][POOLCAP];
static struct driver* pool_dp[POOLN][POOLCAP];
static int pool_er_n, pool_dp_n;
static struct manager the_manager; /* the DeviceManagerV0 object itself, typed */
static int manager_given;
#ifndef VERIF_REPLAY
#define SAME_OBJECT(p, q) __CPROVER_same_object((p), (q))
#else
#define SAME_OBJECT(p, q) ((char*)(p) >= (char*)(q) && (char*)(p) < (char*)(q) + sizeof(q))
#endif
char*
_Znwm(uint64_t n)
{
    if (n == sizeof(struct manager) && !manager_given) { manager_given = 1; return (char*)&the_manager; }
    if (n && n % 268 == 0 && n / 268 <= POOLCAP && pool_er_n < POOLN) return (char*)pool_er[pool_er_n++];
    if (n && n % 8 == 0 && n / 8 <= POOLCAP && pool_dp_n < POOLN) return (char*)pool_dp[pool_dp_n++];
    char* p = malloc(n);
    VASSUME(p != 0);
    return p;
}
#if !defined(VERIF_REPLAY) && MODE == 4 /* only the (unclaimed) enumeration harness; the native replay build uses libc */
/* zero-initialisation of the manager's two vectors (a 48-byte memset in the unit): typed, so that
 * the vectors' pointers stay pointers (CBMC's memset writes a byte array over the struct) */
void*
memset(void* s, int c, size_t n)
{
    if (s == (void*)&the_manager && n == 48 && c == 0) {
        the_manager.identifiers.beg = the_manager.identifiers.end = the_manager.identifiers.cap = 0;
        the_manager.drivers.beg = the_manager.drivers.end = the_manager.drivers.cap = 0;
        return s;
    }
    VASSERT(n <= 300, "harness bound: memset larger than an identifier");
    for (size_t i = 0; i < 300; ++i)
        if (i < n) ((unsigned char*)s)[i] = (unsigned char)c;
    return s;
}
/* relocation of vector elements (memmove in the unit): element-wise and TYPED inside the pools */
void*
memmove(void* dst, const void* src, size_t n)
{
    if (n == 0) return dst;
    if (SAME_OBJECT(dst, pool_dp) && SAME_OBJECT(src, pool_dp)) {
        VASSERT(n % 8 == 0 && n / 8 <= POOLCAP, "harness bound: pointer-vector relocation");
        for (size_t i = 0; i < POOLCAP; ++i)
            if (i < n / 8) ((struct driver**)dst)[i] = ((struct driver* const*)src)[i];
        return dst;
    }
    if (SAME_OBJECT(dst, pool_er) && SAME_OBJECT(src, pool_er)) {
        VASSERT(n % 268 == 0 && n / 268 <= POOLCAP, "harness bound: identifier-vector relocation");
        for (size_t i = 0; i < POOLCAP; ++i)
            if (i < n / 268) ((struct enum_result_*)dst)[i] = ((const struct enum_result_*)src)[i];
        return dst;
    }
    VASSERT(n <= 300, "harness bound: memmove larger than an identifier");
    for (size_t i = 0; i < 300; ++i)
        if (i < n) ((char*)dst)[i] = ((const char*)src)[i];
    return dst;
}
#endif
void
_ZdlPv(char* p)
{
    if (p == 0 || SAME_OBJECT(p, pool_er) || SAME_OBJECT(p, pool_dp) || p == (char*)&the_manager) return;
    free(p);
}

/* ---- logger and helpers of the C side ---- */
/* The logger is printf-like.  The one use the model looks at is the barrier idiom LOGE(e.what()):
 * the message of the exception constructed last, used as the FORMAT with no arguments, must not
 * contain a conversion (see the runtime_error models above).  A general walk of every format that
 * consumes one variadic argument per conversion was built and dropped: ~200 log call sites are
 * reached per run and the walk cost 13-28 M clauses (2 s -> no verdict in 2 min). */
static int log_calls;
void
aq_logger(uint32_t is_error, char* file, uint32_t line, char* function, char* fmt, ...)
{
    ++log_calls;
    if (fmt == last_msg)
        VASSERT(!last_msg_has_conv, "C12: an exception message that contains a conversion (text built from caller input) is used as the logger's format: the C library reads arguments that do not exist");
}
char* device_kind_as_string(uint32_t k) { return (char*)"kind"; }
uint64_t device_identifier_as_debug_string(char* buf, uint64_t n, char* id) { if (n) buf[0] = 0; return 0; }
int snprintf(char* buf, size_t n, const char* fmt, ...) { if (n) buf[0] = 0; return 0; } /* message text of the error path: not the subject */

/* ---- std::locale ---- */
void _ZNSt6localeC1Ev(char* self) {}
void _ZNSt6localeD1Ev(char* self) {}

/* (std::string's member functions are instantiated in the unit's own IR and are translated with it:
 * no model of std::string is needed) */
#define SPMAX 15 /* longest pattern text in any mode (the built-in defaults have 10 characters) */
/* ---- the regex engine as an oracle ---- */
static int compile_calls, compile_throws, match_calls, regex_dtor_calls;
static char seen_pattern[SPMAX + 1];
static uint64_t seen_pattern_len;
static uint32_t seen_flags;
static struct enum_result ids[NID > 5 ? NID : 5]; /* MODE 4 enumerates at most 5 devices */
static uint8_t oracle[NID];      /* arbitrary answer of the engine per enumerated device */
static int match_order_ok = 1, last_matched = -1;
void
_ZNSt7__cxx1111basic_regexIcNS_12regex_traitsIcEEE10_M_compileEPKcS5_NSt15regex_constants18syntax_option_typeE(char* self, char* first, char* last, uint32_t flags)
{
    ++compile_calls;
    uint64_t n = (uint64_t)(last - first);
    VASSERT(n <= SPMAX, "pattern range handed to the regex compiler is longer than the caller's pattern");
    seen_pattern_len = n;
    for (uint64_t i = 0; i < SPMAX; ++i)
        if (i < n) seen_pattern[i] = first[i];
    seen_flags = flags;
    if (compile_throws) lib_throw("regex_error");
}
void _ZNSt7__cxx1111basic_regexIcNS_12regex_traitsIcEEED2Ev(char* self) { ++regex_dtor_calls; }
void _ZNSt12__shared_ptrIKNSt8__detail4_NFAINSt7__cxx1112regex_traitsIcEEEELN9__gnu_cxx12_Lock_policyE2EED2Ev(char* self) {}
void _ZNSt16_Sp_counted_baseILN9__gnu_cxx12_Lock_policyE2EE24_M_release_last_use_coldEv(char* self) { VASSERT(0, "shared_ptr control block released although the model never creates one"); }
uint8_t
_ZNSt8__detail17__regex_algo_implIPKcSaINSt7__cxx119sub_matchIS2_EEEcNS3_12regex_traitsIcEEEEbT_S9_RNS3_13match_resultsIS9_T0_EERKNS3_11basic_regexIT1_T2_EENSt15regex_constants15match_flag_typeENS_20_RegexExecutorPolicyEb(
  char* s, char* e, char* results, char* re, uint32_t flags, uint32_t policy, uint8_t match_mode)
{
    ++match_calls;
    VASSERT(match_mode == 1, "C12: the name is searched for the pattern instead of being matched as a whole (regex_search semantics)");
    VASSERT(flags == 0, "C12: unexpected match flags (a match_* flag changes whole-name matching)");
    int idx = -1;
    for (int i = 0; i < NID; ++i)
        if (s == ids[i].id.name) idx = i;
    VASSERT(idx >= 0, "C12: something that is not an enumerated device name is matched against the pattern");
    VASSERT((uint64_t)(e - s) == strlen(s), "C12: the name is not matched up to its terminating NUL");
    if (idx <= last_matched) match_order_ok = 0;
    last_matched = idx;
    return oracle[idx];
}

/* ---- drivers for MODE 4 ---- */
#define NDRV 6
static struct driver drv[NDRV];
static uint8_t drv_present[NDRV], drv_ndev[NDRV], drv_shutdowns[NDRV];
static int fail_describe_drv = -1, fail_describe_dev = -1, load_calls;
static uint32_t d_count(struct driver* d) { return drv_ndev[d - drv]; }
static uint32_t
d_describe(const struct driver* d, struct ident* id, uint64_t i)
{
    int k = (int)(d - drv);
    VASSERT(i < drv_ndev[k], "C12: describe called with an index the driver did not announce");
    if (k == fail_describe_drv && (int)i == fail_describe_dev) return 1;
    id->device_id = (uint8_t)i;
    id->kind = 1 + (uint32_t)((k + i) % 3);
    id->name[0] = (char)('a' + k); id->name[1] = (char)('0' + i); id->name[2] = 0;
    id->driver_id = 77; /* the manager must overwrite this */
    return 0;
}
static uint32_t d_shutdown(struct driver* d) { ++drv_shutdowns[d - drv]; return 0; }
char*
driver_load(char* path, char* reporter)
{
    int k = load_calls++;
    VASSERT(k < NDRV, "more driver libraries loaded than the table holds");
    if (!drv_present[k]) return 0; /* library absent next to the executable */
    drv[k].device_count = d_count; drv[k].describe = d_describe; drv[k].shutdown = d_shutdown;
    return (char*)&drv[k];
}

/* comparison of identifiers without memcmp's 264-step loop: ids, kind, the name bytes the harness
 * makes symbolic, one byte in the middle and the last byte.  (A macro over the objects themselves, member access by `.`:
 * the same comparison through pointers to the objects came back FAILED from CBMC 6.11 while
 * every single field comparison at the call site was proved equal, and the native replay agreed
 * with the latter.) */
#if NAMEMAX != 2
#error "ident_eq compares name[0..2]: adapt it to NAMEMAX"
#endif
#define ident_eq(a, b) /* a, b: struct ident lvalues */                                                                   \
    ((a).driver_id == (b).driver_id && (a).device_id == (b).device_id && (a).kind == (b).kind && (a).name[0] == (b).name[0] && \
     (a).name[1] == (b).name[1] && (a).name[2] == (b).name[2] && (a).name[100] == (b).name[100] && (a).name[255] == (b).name[255])
/* the unit's 264-byte identifier copies (memcpy in the source), as typed struct assignments */
void
verif_copy_ident(char* dst, char* src)
{
    /* case split over the enumerated devices: every alternative copies from a concrete object
     * (a 264-byte read at a symbolic offset of the identifier array costs millions of clauses) */
    for (int k = 0; k < (NID > 5 ? NID : 5); ++k)
        if (src == (char*)&ids[k].id) { *(struct ident*)dst = ids[k].id; return; }
    VASSERT(0, "harness bound: an identifier is copied from something that is not an element of the enumeration");
}
static struct manager mgr;
static struct dm_handle handle;
static struct driver* drv_table[4];

static void
arbitrary_manager(int* n_out)
{
    int n = ND(uint8_t);
    VASSUME(n <= NID);
    for (int i = 0; i < NID; ++i) {
        ids[i].status = ND(uint8_t) ? 1 : 0;
        ids[i].id.driver_id = ND(uint8_t);
        ids[i].id.device_id = ND(uint8_t);
        ids[i].id.kind = ND(uint8_t);
        VASSUME(ids[i].id.kind <= 5);
        for (int c = 0; c < NAMEMAX; ++c) ids[i].id.name[c] = (char)ND(uint8_t);
        ids[i].id.name[NAMEMAX] = 0;
        oracle[i] = ND(uint8_t) & 1;
    }
    mgr.identifiers.beg = (char*)ids;
    mgr.identifiers.end = mgr.identifiers.cap = (char*)(ids + n);
    mgr.state = 0;
    handle.impl = &mgr;
    *n_out = n;
}

int
main(void)
{
#if MODE == 1 || MODE == 3
    int n;
    arbitrary_manager(&n);
    uint32_t kind = ND(uint8_t);
    struct ident out, out0;
    memset(&out, 0x5a, sizeof out);
    out0 = out;
    compile_throws = ND(uint8_t) & 1;
#if MODE == 1
    static char pat[PMAX];
#ifdef PLEN
    const uint64_t plen = PLEN; /* the pattern LENGTH is fixed per harness instance (the std::string code then runs with concrete sizes); its bytes stay symbolic */
#else
    uint64_t plen = ND(uint8_t);
    VASSUME(plen <= PMAX);
#endif
    for (int i = 0; i < PMAX; ++i) pat[i] = (char)ND(uint8_t);
    uint8_t null_name = ND(uint8_t) & 1, variant = ND(uint8_t);
    VASSUME(variant < 3);
    /* the buffer handed in has exactly plen bytes: reading past it leaves the object */
    char* name = null_name ? 0 : (pat + (PMAX - plen));
    const char* pb = pat + (PMAX - plen);
    if (variant) {
        /* NULL handles: concretely guarded calls (see MODE 2) */
        uint32_t rcn;
        if (variant == 1) rcn = device_manager_select((char*)0, kind, name, plen, (char*)&out);
        else { handle.impl = 0; rcn = device_manager_select((char*)&handle, kind, name, plen, (char*)&out); }
        VASSERT(verif_exn == 0, "C12: an exception escapes device_manager_select (NULL handle)");
        VASSERT(rcn != 0 && ident_eq(out, out0), "C12: NULL handle accepted / output written");
        return 0;
    }
    uint32_t rc = device_manager_select((char*)&handle, kind, name, plen, (char*)&out);
    VASSERT(verif_exn == 0, "C12: an exception escapes device_manager_select");
    if (null_name && plen) {
        VASSERT(rc != 0, "C12: NULL name with a length accepted");
        VASSERT(ident_eq(out, out0), "C12: output written on an error path");
        return 0;
    }
    /* the pattern std::string: the plen bytes; if the last one is NUL, cut at the first NUL */
    uint64_t first_nul = plen;
    for (uint64_t i = PMAX; i-- > 0;)
        if (i < plen && pb[i] == 0) first_nul = i;
    uint64_t slen = (plen && !null_name && pb[plen - 1] == 0) ? first_nul : (null_name ? 0 : plen);
    int any = slen == 0;
    /* text that reaches the engine: the C string of that std::string (up to its first NUL) */
    uint64_t clen = first_nul < slen ? first_nul : slen;
#else
    uint8_t which = ND(uint8_t) & 1;
    uint32_t rc = which ? device_manager_select_first((char*)&handle, kind, (char*)&out) : device_manager_select_default((char*)&handle, kind, (char*)&out);
    VASSERT(verif_exn == 0, "C12: an exception escapes device_manager_select_first/_default");
    int any = which;
    const char* pb = kind == 1 ? ".*random.*" : "trash"; /* the documented defaults: DeviceKind_Camera == 1, DeviceKind_Storage == 2 */
    uint64_t clen = which ? 0 : (kind == 1 ? 10 : 5);
    if (!which && kind != 1 && kind != 2) {
        VASSERT(rc != 0 && compile_calls == 0 && ident_eq(out, out0), "C12: select_default for a kind without default did not fail cleanly");
        return 0;
    }
#endif
    VASSERT(compile_calls == 1, "regex compiled more or less than once per selection");
    VASSERT(seen_flags & 1, "C12: pattern compiled without the case-insensitive flag");
    VASSERT((seen_flags & ~(uint32_t)(1 | 4)) == 0, "C12: pattern compiled with a grammar/flag other than the default ECMAScript | icase | optimize");
    VASSERT(seen_pattern_len == clen, "C12: the text compiled is not the caller's pattern (length)");
    for (uint64_t i = 0; i < SPMAX; ++i)
        if (i < clen) VASSERT(seen_pattern[i] == pb[i], "C12: the text compiled is not the caller's pattern (bytes)");
    if (compile_throws) {
        VASSERT(rc != 0, "C12: malformed pattern did not give an error status");
        VASSERT(ident_eq(out, out0), "C12: output written although the pattern is malformed");
        VASSERT(match_calls == 0, "matching attempted with a pattern that failed to compile");
        return 0;
    }
    /* reference: first enumerated device of the kind whose name the engine accepts (any for empty) */
    int want = -1;
    for (int i = NID; i-- > 0;)
        if (i < n && ids[i].id.kind == kind && (any || oracle[i])) want = i;
#if MODE == 1
    /* a pattern that consists of NUL padding only: the property does not say whether that is the
     * empty pattern (any device of the kind: what the unit does) or a pattern text of length 0
     * given to the engine; both outcomes are accepted */
    if (plen > 0 && !null_name && pb[plen - 1] == 0 && first_nul == 0) {
        int want2 = -1;
        for (int i = NID; i-- > 0;)
            if (i < n && ids[i].id.kind == kind && oracle[i]) want2 = i;
        int ok_any = want < 0 ? (rc != 0 && ident_eq(out, out0)) : (rc == 0 && ident_eq(out, ids[want].id));
        int ok_txt = want2 < 0 ? (rc != 0 && ident_eq(out, out0)) : (rc == 0 && ident_eq(out, ids[want2].id));
        VASSERT(ok_any || ok_txt, "C12: NUL-only pattern: the outcome is neither 'any device of the kind' nor 'first device whose name matches the empty text'");
        return 0;
    }
#endif
    if (want < 0) {
        VASSERT(rc != 0, "C12: a device was selected although none of the kind matches");
        VASSERT(ident_eq(out, out0), "C12: output written although nothing matches");
    } else {
        VASSERT(rc == 0, "C12: no device selected although one of the kind matches");
        VASSERT(ident_eq(out, ids[want].id), "C12: the selected device is not the FIRST enumerated one of the kind whose name matches");
    }
    VASSERT(match_order_ok, "C12: candidates are not tried in enumeration order");
#if defined(PLEN) && MODE == 1
    COVER(want == 1 && n == 3);
    COVER(want < 0 && n >= 2);
#else
    COVER(want == 1 && n == 3 && !any);
    COVER(want == 0 && any);
    COVER(want < 0 && n >= 2);
#endif
#if MODE == 1
#ifndef PLEN
    COVER(plen == PMAX && slen < plen && slen > 0);
    COVER(plen >= 2 && clen < slen);
#else
    COVER(plen < 2 || slen < plen);
#endif
#endif
    WITNESS_END();
#elif MODE == 2
    int n;
    arbitrary_manager(&n);
    int nd = ND(uint8_t);
    VASSUME(nd <= 4);
    for (int i = 0; i < 4; ++i) drv_table[i] = ND(uint8_t) & 1 ? &drv[i] : 0;
    mgr.drivers.beg = (char*)drv_table;
    mgr.drivers.end = mgr.drivers.cap = (char*)(drv_table + nd);
    /* NULL handles: separate, concretely guarded calls (with a symbolic handle the state word read
     * through it is symbolic too and symex wanders into DeviceManagerV0::init) */
    uint8_t variant = ND(uint8_t);
    VASSUME(variant < 3);
    if (variant) {
        struct ident o, o0;
        memset(&o, 0x5a, sizeof o);
        o0 = o;
        uint32_t ix = ND(uint8_t) & 3;
#define NULL_HANDLE_CALLS(hs)                                                                                                                    \
    VASSERT(device_manager_count(hs) == 0 && verif_exn == 0, "C12: count on a NULL handle");                                                     \
    VASSERT(device_manager_get((char*)&o, hs, ix) != 0 && verif_exn == 0 && ident_eq(o, o0), "C12: get on a NULL handle did not fail cleanly");  \
    VASSERT(device_manager_get_driver(hs, (char*)&ids[0].id) == 0 && verif_exn == 0, "C12: get_driver on a NULL handle did not fail cleanly");
        if (variant == 1) { NULL_HANDLE_CALLS((char*)0) }
        else { handle.impl = 0; NULL_HANDLE_CALLS((char*)&handle) }
        return 0;
    }
    const uint8_t null_self = 0, null_impl = 0;
    char* self = (char*)&handle;
    /* count */
    /* get: the index is one of a set of representative values, each passed as a CONSTANT (a load
     * at a symbolic offset of the identifier array costs gigabytes of clauses; the bounds check
     * of the unit is a 64-bit comparison of the index with the element count) */
    static const uint32_t REP[] = { 0, 1, 2, 3, 4, 5, 15, 16, 255, 256, 65535, 65536, 0x7fffffffu, 0x80000000u, 0xfffffffeu, 0xffffffffu };
    uint8_t sel = ND(uint8_t);
    VASSUME(sel < sizeof REP / sizeof REP[0]);
    uint32_t index = 0, rc = 77;
    struct ident out, out0;
    memset(&out, 0x5a, sizeof out);
    out0 = out;
#define GET_CASE(k) if (sel == (k)) { index = REP[k]; rc = device_manager_get((char*)&out, self, REP[k]); }
    GET_CASE(0) GET_CASE(1) GET_CASE(2) GET_CASE(3) GET_CASE(4) GET_CASE(5) GET_CASE(6) GET_CASE(7)
    GET_CASE(8) GET_CASE(9) GET_CASE(10) GET_CASE(11) GET_CASE(12) GET_CASE(13) GET_CASE(14) GET_CASE(15)
    VASSERT(verif_exn == 0, "C12: an exception escapes device_manager_get");
    if (null_self || null_impl || index >= (uint32_t)n || ids[index % NID].status != 0) {
        VASSERT(rc != 0, "C12: out-of-range index / NULL handle / failed enumeration entry did not give an error status");
        VASSERT(ident_eq(out, out0), "C12: output written on an error path of device_manager_get");
    } else {
        VASSERT(rc == 0 && ident_eq(out, ids[index].id), "C12: device_manager_get(i) is not the i-th enumerated identifier");
    }
    /* get_driver */
    static struct ident q;
    static const uint8_t DREP[] = { 0, 1, 2, 3, 4, 5, 127, 128, 255 };
    uint8_t dsel = ND(uint8_t), null_id = ND(uint8_t) & 1;
    VASSUME(dsel < sizeof DREP);
    char* d = (char*)&q; /* sentinel: overwritten below */
#define DRV_CASE(k) if (dsel == (k)) { q.driver_id = DREP[k]; d = device_manager_get_driver(self, null_id ? 0 : (char*)&q); }
    DRV_CASE(0) DRV_CASE(1) DRV_CASE(2) DRV_CASE(3) DRV_CASE(4) DRV_CASE(5) DRV_CASE(6) DRV_CASE(7) DRV_CASE(8)
    VASSERT(verif_exn == 0, "C12: an exception escapes device_manager_get_driver");
    if (null_self || null_impl || null_id || q.driver_id >= nd) VASSERT(d == 0, "C12: driver returned for a NULL handle/identifier or an out-of-range driver id");
    else VASSERT(d == (char*)drv_table[q.driver_id], "C12: wrong driver for the identifier's driver id");
    COVER(index == 2 && rc == 0);
    COVER(index >= (uint32_t)n && n > 0 && !null_self && !null_impl);
    COVER(d != 0);
    WITNESS_END();
#elif MODE == 4
    int total = 0;
#ifdef PRESENT
    /* which libraries are present and how many devices each announces is fixed per harness
     * instance (the vectors then grow through concrete capacities); which describe call fails
     * stays symbolic */
    static const uint8_t ndevs[NDRV] = NDEVS;
    for (int k = 0; k < NDRV; ++k) {
        drv_present[k] = (PRESENT >> k) & 1;
        drv_ndev[k] = ndevs[k];
        if (drv_present[k]) total += drv_ndev[k];
    }
#else
    for (int k = 0; k < NDRV; ++k) {
        drv_present[k] = ND(uint8_t) & 1;
        drv_ndev[k] = ND(uint8_t);
        VASSUME(drv_ndev[k] <= 2);
        if (drv_present[k]) total += drv_ndev[k];
    }
    VASSUME(total <= 5);
#endif
    fail_describe_drv = ND(int8_t); fail_describe_dev = ND(int8_t);
    handle.impl = 0;
    uint32_t rc = device_manager_init((char*)&handle, 0);
    VASSERT(verif_exn == 0, "C12: an exception escapes device_manager_init");
    VASSERT(rc == 0 && handle.impl != 0, "C12: initialisation fails because optional driver libraries are absent");
    VASSERT(load_calls == NDRV, "number of driver libraries probed changed (update NDRV)");
    struct manager* m = handle.impl;
    VASSERT(device_manager_count((char*)&handle) == (uint32_t)total, "C12: number of enumerated devices is not the sum over the present drivers");
    VASSERT((m->drivers.end - m->drivers.beg) / 8 == NDRV, "driver table does not have one slot per library");
    /* enumeration order: drivers in table order, devices in index order; driver_id = table slot */
    int pos = 0;
    for (int k = 0; k < NDRV; ++k) {
        VASSERT(((struct driver**)m->drivers.beg)[k] == (drv_present[k] ? &drv[k] : 0), "driver table slot does not hold the library's driver (or NULL if absent)");
        for (int i = 0; i < 2; ++i)
            if (drv_present[k] && i < drv_ndev[k]) {
                struct enum_result* e = (struct enum_result*)m->identifiers.beg + pos;
                int failed = k == fail_describe_drv && i == fail_describe_dev;
                VASSERT(e->id.driver_id == k, "C12: enumerated identifier does not carry the table slot of its driver");
                VASSERT((e->status != 0) == failed, "C12: status of the enumeration entry does not reflect describe's answer");
                if (!failed) {
                    VASSERT(e->id.device_id == i && e->id.name[0] == 'a' + k && e->id.name[1] == '0' + i, "C12: enumeration order is not driver order then device order");
                    struct ident got;
                    VASSERT(device_manager_get((char*)&got, (char*)&handle, (uint32_t)pos) == 0 && got.driver_id == k && got.device_id == i, "C12: device_manager_get disagrees with the enumeration");
                    VASSERT(device_manager_get_driver((char*)&handle, (char*)&got) == (char*)&drv[k], "C12: the driver found for an enumerated identifier is not the one that described it");
                }
                ++pos;
            }
    }
    VASSERT(device_manager_destroy((char*)&handle) == 0 && verif_exn == 0 && handle.impl == 0, "C12: destroy failed");
    for (int k = 0; k < NDRV; ++k) VASSERT(drv_shutdowns[k] == (drv_present[k] ? 1 : 0), "C12: a present driver is not shut down exactly once / an absent one is touched");
#ifndef PRESENT
    COVER(total == 5 && !drv_present[0] && drv_present[5]);
    COVER(total == 0);
    COVER(fail_describe_drv == 1 && fail_describe_dev == 0 && drv_present[1] && drv_ndev[1] == 2);
#else
    COVER(total == 0 || (fail_describe_drv >= 0 && fail_describe_drv < NDRV && drv_present[fail_describe_drv] && fail_describe_dev >= 0 && fail_describe_dev < drv_ndev[fail_describe_drv]));
#endif
    WITNESS_END();
#endif
    return 0;
}
