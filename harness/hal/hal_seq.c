/* C11: HAL wrappers enforce the device protocol and never touch a closed device.
 *
 * A mock driver whose every return value is symbolic; the device object is malloc'ed by the
 * driver's open and FREED by its close, so any later access through the handle is a CBMC
 * "deallocated dynamic object" failure.  A symbolic sequence of L HAL calls follows the open.
 * Protocol monitor (inside the mock):
 *   storage: running := the driver's last state-bearing response (set/start/append/stop) was
 *            Running; stop and append reach the driver only while running
 *   camera:  running := driver start returned Ok and driver stop has not been called since;
 *            stop and get_frame reach the driver only while running
 *   both:    exactly one close per successful driver open (also on the error paths of *_open),
 *            no driver call after close
 * HAL state: equals the function of the driver's last response documented in the HAL sources.
 * KIND=1 storage, KIND=2 camera.
 */
#include "verif.h"
#include <stdlib.h>
#include <string.h>
#include "device/hal/device.manager.h"
#include "device/hal/driver.h"
#include "device/hal/storage.h"
#include "device/hal/camera.h"
#include "device/kit/storage.h"
#include "device/kit/camera.h"
#include "device/kit/driver.h"
#include "device/props/components.h"

#ifndef L
#define L 4
#endif

static int opens, closes, closed_now, calls_after_close;
static int drv_running;  /* monitor's view */
static int have_resp, last_resp; /* storage: the driver's last state-bearing response */
static int viol_stop, viol_append, viol_frame;
static int stops_called, starts_ok;
static struct Driver mock;
static void* live_dev;

static void
on_call(void)
{
    if (closed_now) ++calls_after_close;
}

/* ---- storage mock ---- */
static enum DeviceState
draw_state(void)
{
    /* all five enum values + one out-of-range code */
    uint8_t s = ND(uint8_t);
    VASSUME(s <= DeviceStateCount + 1);
    return (enum DeviceState)s;
}
static enum DeviceState
m_set(struct Storage* self, const struct StorageProperties* p)
{
    on_call();
    enum DeviceState s = draw_state();
    drv_running = s == DeviceState_Running;
    have_resp = 1; last_resp = (int)s;
    return s;
}
static void m_get(const struct Storage* self, struct StorageProperties* p) { on_call(); }
static void m_get_meta(const struct Storage* self, struct StoragePropertyMetadata* m) { on_call(); }
static enum DeviceState
m_start(struct Storage* self)
{
    on_call();
    enum DeviceState s = draw_state();
    drv_running = s == DeviceState_Running;
    have_resp = 1; last_resp = (int)s;
    if (drv_running) ++starts_ok;
    return s;
}
static enum DeviceState
m_append(struct Storage* self, const struct VideoFrame* f, size_t* n)
{
    on_call();
    if (!drv_running) ++viol_append;
    enum DeviceState s = draw_state();
    drv_running = s == DeviceState_Running;
    have_resp = 1; last_resp = (int)s;
    return s;
}
static enum DeviceState
m_stop(struct Storage* self)
{
    on_call();
    ++stops_called;
    if (!drv_running) ++viol_stop;
    enum DeviceState s = draw_state();
    drv_running = s == DeviceState_Running;
    have_resp = 1; last_resp = (int)s;
    return s;
}
static void m_destroy(struct Storage* self) { on_call(); }
static void m_reserve(struct Storage* self, const struct ImageShape* s) { on_call(); }

/* ---- camera mock ---- */
static enum DeviceStatusCode
draw_code(void)
{
    uint8_t s = ND(uint8_t);
    VASSUME(s <= Device_Err); /* the enum has exactly Ok and Err */
    return (enum DeviceStatusCode)s;
}
static enum DeviceStatusCode c_set(struct Camera* c, struct CameraProperties* p) { on_call(); return draw_code(); }
static enum DeviceStatusCode c_get(const struct Camera* c, struct CameraProperties* p) { on_call(); return draw_code(); }
static enum DeviceStatusCode c_get_meta(const struct Camera* c, struct CameraPropertyMetadata* p) { on_call(); return draw_code(); }
static enum DeviceStatusCode c_get_shape(const struct Camera* c, struct ImageShape* p) { on_call(); return draw_code(); }
static enum DeviceStatusCode
c_start(struct Camera* c)
{
    on_call();
    enum DeviceStatusCode e = draw_code();
    if (e == Device_Ok) { drv_running = 1; ++starts_ok; }
    return e;
}
static enum DeviceStatusCode
c_stop(struct Camera* c)
{
    on_call();
    ++stops_called;
    if (!drv_running) ++viol_stop;
    drv_running = 0;
    return draw_code();
}
static enum DeviceStatusCode c_trigger(struct Camera* c) { on_call(); return draw_code(); }
static enum DeviceStatusCode
c_get_frame(struct Camera* c, void* im, size_t* n, struct ImageInfo* info)
{
    on_call();
    if (!drv_running) ++viol_frame;
    return draw_code();
}

/* ---- driver mock ---- */
static enum DeviceStatusCode
d_open(struct Driver* self, uint64_t id, struct Device** out)
{
    enum DeviceStatusCode e = draw_code();
    VASSUME(e <= Device_Err);
    if (e != Device_Ok) { *out = 0; return e; }
#if KIND == 1
    struct Storage* s = malloc(sizeof *s);
    VASSUME(s != 0);
    memset(s, 0, sizeof *s);
    s->state = ND(bool_t) ? DeviceState_AwaitingConfiguration : DeviceState_Armed;
    s->set = m_set; s->get = m_get; s->get_meta = m_get_meta; s->start = m_start; s->append = m_append;
    s->stop = m_stop; s->destroy = m_destroy; s->reserve_image_shape = m_reserve;
    s->device.identifier.kind = DeviceKind_Storage;
    *out = &s->device;
    live_dev = s;
#else
    struct Camera* c = malloc(sizeof *c);
    VASSUME(c != 0);
    memset(c, 0, sizeof *c);
    c->state = ND(bool_t) ? DeviceState_AwaitingConfiguration : DeviceState_Armed;
    c->set = c_set; c->get = c_get; c->get_meta = c_get_meta; c->get_shape = c_get_shape; c->start = c_start;
    c->stop = c_stop; c->execute_trigger = c_trigger; c->get_frame = c_get_frame;
    c->device.identifier.kind = DeviceKind_Camera;
    *out = &c->device;
    live_dev = c;
#endif
    ++opens;
    closed_now = 0;
    drv_running = 0;
    return Device_Ok;
}
static enum DeviceStatusCode
d_describe(const struct Driver* self, struct DeviceIdentifier* id, uint64_t i)
{
    enum DeviceStatusCode e = draw_code();
    VASSUME(e <= Device_Err);
    return e;
}
static enum DeviceStatusCode
d_close(struct Driver* self, struct Device* dev)
{
    VASSERT(!closed_now, "C11: driver close called twice for one open");
    VASSERT((void*)dev == live_dev, "C11: driver close called with a pointer that is not the open device");
    ++closes;
    closed_now = 1;
    enum DeviceStatusCode e = draw_code();
    free(live_dev); /* the driver releases the device object */
    return e;
}

struct Driver*
device_manager_get_driver(const struct DeviceManager* self, const struct DeviceIdentifier* identifier)
{
    return &mock;
}

int
main(void)
{
    mock.open = d_open; mock.describe = d_describe; mock.close = d_close;
    struct DeviceManager dm = { 0 };
    struct DeviceIdentifier id;
    memset(&id, 0, sizeof id);
    static struct StorageProperties sp;
    static struct CameraProperties cp;
    static struct ImageShape shape;
    static uint8_t frames[2 * sizeof(struct VideoFrame)];
#if KIND == 1
    id.kind = DeviceKind_Storage;
    struct Storage* h = storage_open(&dm, &id);
    enum DeviceState expect_state = h ? h->state : DeviceState_Closed;
#else
    id.kind = DeviceKind_Camera;
    struct Camera* h = camera_open(&dm, &id);
    enum DeviceState expect_state = h ? h->state : DeviceState_Closed;
#endif
    if (!h) {
        VASSERT(opens == closes, "C11: *_open failed but left the driver's device open (no close for a successful driver open)");
        COVER(opens == 1);
        WITNESS_END();
        return 0;
    }
    VASSERT(opens == 1 && closes == 0, "open bookkeeping");
    for (int i = 0; i < L; ++i) {
        uint8_t op = ND(uint8_t);
#if KIND == 1
        VASSUME(op < 8);
        enum DeviceStatusCode rc;
        int was_running = drv_running;
        enum DeviceState before = h->state;
        int stops0 = stops_called;
        switch (op) {
            case 0: rc = storage_set(h, &sp); break;
            case 1: rc = storage_get(h, &sp); break;
            case 2: { struct StoragePropertyMetadata m; rc = storage_get_meta(h, &m); } break;
            case 3: rc = storage_start(h); break;
            case 4: rc = storage_stop(h); break;
            case 5: rc = storage_append(h, (struct VideoFrame*)frames, (struct VideoFrame*)(frames + sizeof(struct VideoFrame))); break;
            case 6: rc = storage_reserve_image_shape(h, &shape); break;
            default: VASSERT(storage_get_state(h) == h->state, "get_state"); break;
        }
        /* the HAL's state always is the driver's last state-bearing response */
        VASSERT(have_resp ? (int)h->state == last_resp : h->state == expect_state,
                "C11: HAL state differs from the driver's last state-bearing response");
        if (op == 4 && was_running) VASSERT(stops_called == stops0 + 1, "C11: storage_stop on a running device did not reach the driver");
#else
        VASSUME(op < 9);
        enum DeviceStatusCode rc = Device_Ok;
        enum DeviceState before = h->state;
        int was_running = drv_running;
        switch (op) {
            case 0: rc = camera_set(h, &cp);
                if (rc == Device_Ok) VASSERT(h->state == (before == DeviceState_Running ? DeviceState_Running : DeviceState_Armed), "C11: state after set Ok");
                if (rc == Device_Err) VASSERT(h->state == DeviceState_AwaitingConfiguration, "C11: state after set Err");
                break;
            case 1: rc = camera_get(h, &cp); VASSERT(h->state == before, "get changed state"); break;
            case 2: { struct CameraPropertyMetadata m; rc = camera_get_meta(h, &m); VASSERT(h->state == before, "get_meta changed state"); } break;
            case 3: rc = camera_get_image_shape(h, &shape); VASSERT(h->state == before, "get_shape changed state"); break;
            case 4: rc = camera_start(h);
                if (rc == Device_Ok) VASSERT(h->state == DeviceState_Running, "C11: state after start Ok");
                if (rc == Device_Err) VASSERT(h->state == DeviceState_AwaitingConfiguration, "C11: state after start Err");
                break;
            case 5: rc = camera_stop(h);
                if (before == DeviceState_Running && rc == Device_Ok) VASSERT(h->state == DeviceState_Armed, "C11: state after stop Ok");
                if (before == DeviceState_Running && rc == Device_Err) VASSERT(h->state == DeviceState_AwaitingConfiguration, "C11: state after stop Err");
                if (before != DeviceState_Running) VASSERT(h->state == before, "stop on a non-running camera changed state");
                break;
            case 6: rc = camera_execute_trigger(h); VASSERT(h->state == before, "trigger changed state"); break;
            case 7: { size_t n = sizeof frames; struct ImageInfo info; rc = camera_get_frame(h, frames, &n, &info);
                if (before == DeviceState_Running && rc != Device_Ok) VASSERT(h->state == DeviceState_AwaitingConfiguration, "C11: state after failed get_frame");
                if (before == DeviceState_Running && rc == Device_Ok) VASSERT(h->state == DeviceState_Running, "C11: state after get_frame Ok");
                } break;
            default: VASSERT(camera_get_state(h) == h->state, "get_state"); break;
        }
        /* HAL Running implies the driver was started and not stopped since */
        VASSERT(h->state != DeviceState_Running || drv_running, "C11: HAL reports Running but the driver is not running");
#endif
        VASSERT(viol_stop == 0, "C11: driver stop called while the device was not running (no preceding successful start)");
        VASSERT(viol_append == 0, "C11: driver append called outside the running state");
        VASSERT(viol_frame == 0, "C11: driver get_frame called outside the running state");
        VASSERT(closes == 0, "device closed by a non-close call");
        (void)rc; (void)was_running;
    }
    COVER(starts_ok >= 1 && stops_called >= 1);
    COVER(drv_running);
#if KIND == 1
    storage_close(h);
#else
    camera_close(h);
#endif
    VASSERT(closes == 1, "C11: close did not reach the driver exactly once");
    VASSERT(calls_after_close == 0, "C11: driver called after close");
    VASSERT(viol_stop == 0, "C11: driver stop called while not running (during close)");
    WITNESS_END();
    return 0;
}
