/* C18: simulated cameras deliver fresh, increasing, trigger-gated frames; stop unblocks.
 * simulated.camera.c is #included (static functions visible).
 *
 * SCN 1 (stop unblocks a pending frame call; mechanism A = goto-instrument --isr env_step):
 *   main flow = the REAL simcam_get_frame on a started camera; environment = the steps of
 *   simcam_stop { is_running = 0 | simcam_execute_trigger (real, locked) | notify(frame_ready) }
 *   in program order at arbitrary instants, plus an abstract streamer that may publish a frame.
 *   The writer-style sleep model: a broadcast wakes get_frame only if it is already asleep.
 *   Obligation: get_frame returns Device_Ok with the lock released.
 * SCN 2 (shape of simcam_stop): the REAL simcam_stop run sequentially over recording stubs: the
 *   running flag is cleared first, then the trigger section (lock; frame_wanted, triggered;
 *   notify trigger_ready; unlock), then notify(frame_ready), then join -- this ties the
 *   hand-split environment of SCN 1 to the real function.
 * SCN 3 (ids / trigger gating; mechanism B): main flow = the REAL streamer thread, <= ITER
 *   iterations, camera kind Empty, binning 1; environment at every lock boundary and at the
 *   streamer's sleep/clock stubs: real simcam_execute_trigger, a frame consumer {request:
 *   frame_wanted=1 under the lock (first half of get_frame) | collect: take the published frame
 *   when one is pending}, and stop.  Obligations: collected hardware ids strictly increase, no
 *   frame twice; with the software trigger enabled nothing is published before the first trigger
 *   and #published <= #triggers; simcam_start resets both counters to -1.
 */
#include "verif.h"
#include "plat_seq.h"
#include <stdlib.h>
#include <string.h>
#include "simulated.camera.c"

uint8_t
popcount_u8(uint8_t v)
{
    uint8_t c = 0;
    for (int i = 0; i < 8; ++i) c += (v >> i) & 1;
    return c;
}
void im_fill_pattern_u8(const struct ImageShape* const s, float ox, float oy, uint8_t* b) {}
void im_fill_pattern_i8(const struct ImageShape* const s, float ox, float oy, int8_t* b) {}
void im_fill_pattern_u16(const struct ImageShape* const s, float ox, float oy, uint16_t* b) {}
void im_fill_pattern_i16(const struct ImageShape* const s, float ox, float oy, int16_t* b) {}
void im_fill_pattern_f32(const struct ImageShape* const s, float ox, float oy, float* b) {}
uint32_t pcg32_random(void) { return 0; }

#ifndef ITER
#define ITER 3
#endif
#ifndef ENV_MAX
#define ENV_MAX 6
#endif

static struct SimulatedCamera* cam;
static int in_env, env_steps, main_done, armed;
static int sleeping, woken;            /* main flow asleep on a condition variable */
static struct condition_variable* sleeping_on;
static int pending_notify_frame_ready; /* deferred broadcast (SCN 1) */
static int stop_stage;                 /* 0 none, 1 flag cleared, 2 trigger done, 3 frame_ready notified */
static int order_log[8], order_n;
static int triggers, publishes_seen, publishes_before_trigger;
static int64_t last_collected = -1;
static int collect_errors, requests, collected;
static int joined;

void verif_on_lock_acquire(struct lock* l);
void verif_on_lock_release(struct lock* l) {}
void thread_init(struct thread* t) { t->is_live_ = 0; }
/* the new thread may run at once: what it reads at start-up (its frame counter is seeded from
 * im.frame_id, its loop condition is streamer.is_running) must already have its final value when
 * the thread is created, and simcam_start must not write it afterwards */
static int64_t at_create_frame_id, at_create_last_emitted;
static int at_create_running, created;
uint8_t
thread_create(struct thread* t, void (*p)(void*), void* a)
{
    struct SimulatedCamera* sc = (struct SimulatedCamera*)a;
    at_create_frame_id = (int64_t)sc->im.frame_id; at_create_last_emitted = (int64_t)sc->im.last_emitted_frame_id; at_create_running = sc->streamer.is_running;
    ++created;
    t->is_live_ = 1;
    return 1;
}
void
thread_join(struct thread* t)
{
    if (order_n < 8) order_log[order_n++] = 5;
    ++joined;
    t->is_live_ = 0;
}
void clock_init(struct clock* c) {}
double clock_toc_ms(struct clock* c) { return 0; }

#if SCN == 1
static void env_step_impl(void);
static void (*env_fp)(void);
void
env_step(void)
{
    if (!armed) return;
    /* self-assignments: a call is inserted before every main-flow read of these */
    cam->streamer.is_running = cam->streamer.is_running;
    cam->im.frame_id = cam->im.frame_id;
    cam->im.last_emitted_frame_id = cam->im.last_emitted_frame_id;
    env_fp();
}
static void
env_step_impl(void)
{
    if (in_env || main_done || env_steps >= ENV_MAX) return;
    in_env = 1;
    ++env_steps;
    uint8_t c = ND(uint8_t);
    if (c == 0 && stop_stage == 0) { cam->streamer.is_running = 0; stop_stage = 1; }
    else if (c == 1 && stop_stage == 1) {
        VASSUME(!verif_lock_is_held(&cam->im.lock)); /* would block until the lock is free */
        simcam_execute_trigger(&cam->camera);
        stop_stage = 2;
    } else if (c == 2 && stop_stage == 2) {
        if (sleeping && sleeping_on == &cam->im.frame_ready) woken = 1;
        stop_stage = 3;
    } else if (c == 3 && stop_stage == 0 && !verif_lock_is_held(&cam->im.lock)) {
        /* abstract streamer publishes a frame on demand (what the real loop does under the lock) */
        if (cam->im.frame_wanted) {
            cam->im.frame_id += 1;
            cam->im.frame_wanted = 0;
            if (sleeping && sleeping_on == &cam->im.frame_ready) woken = 1;
        }
    } else --env_steps;
    in_env = 0;
}
void verif_on_lock_acquire(struct lock* l) {}
void
verif_on_notify(struct condition_variable* cv)
{
    if (sleeping && sleeping_on == cv) woken = 1;
}
void
verif_on_wait(struct condition_variable* cv, struct lock* l)
{
    lock_release(l);
    sleeping = 1; sleeping_on = cv; woken = 0;
    for (int k = 0; k < ENV_MAX; ++k)
        if (!woken) env_step_impl();
    if (!woken) {
        VASSUME(stop_stage == 3); /* maximal schedule: stop has done everything it does before join */
        VASSERT(0, "C18: a pending frame call sleeps forever although stop has cleared the running flag and sent its notifications");
        VASSUME(0);
    }
    sleeping = 0; woken = 0;
    VASSUME(!verif_lock_is_held(l));
    lock_acquire(l);
}
uint64_t clock_tic(struct clock* c) { return 0; }
void clock_sleep_ms(struct clock* c, float ms) {}
#elif SCN == 2
void verif_on_lock_acquire(struct lock* l) { if (order_n < 8) order_log[order_n++] = 2; }
void
verif_on_notify(struct condition_variable* cv)
{
    if (order_n < 8) order_log[order_n++] = (cv == &cam->software_trigger.trigger_ready) ? 3 : (cv == &cam->im.frame_ready ? 4 : 9);
}
void verif_on_wait(struct condition_variable* cv, struct lock* l) { VASSUME(0); }
uint64_t clock_tic(struct clock* c) { return 0; }
void clock_sleep_ms(struct clock* c, float ms) {}
#else
/* SCN 3 */
static void
env_step(void)
{
    if (in_env || main_done || env_steps >= ENV_MAX) return;
    if (verif_lock_is_held(&cam->im.lock)) return;
    uint8_t c = ND(uint8_t);
    if (c == 0) return;
    in_env = 1;
    ++env_steps;
    if (c == 1) { simcam_execute_trigger(&cam->camera); ++triggers; }
    else if (c == 2) { cam->im.frame_wanted = 1; ++requests; } /* first half of get_frame (under the lock) */
    else if (c == 3 && cam->im.last_emitted_frame_id < cam->im.frame_id) {
        /* second half of get_frame: its wait condition is false, it takes the published frame */
        int64_t id = cam->im.frame_id;
        if (id <= last_collected) ++collect_errors; /* same frame twice / ids not increasing */
        last_collected = id;
        cam->im.last_emitted_frame_id = id;
        ++collected;
    } else if (c == 4 && cam->streamer.is_running) {
        cam->streamer.is_running = 0;
        simcam_execute_trigger(&cam->camera); /* stop fires a trigger to unblock the streamer */
        ++triggers;
    } else --env_steps;
    in_env = 0;
}
void verif_on_lock_acquire(struct lock* l) { if (!in_env) env_step(); }
void
verif_on_notify(struct condition_variable* cv)
{
    if (cv == &cam->im.frame_ready && !in_env) {
        /* the streamer published a frame */
        ++publishes_seen;
        if (cam->properties.input_triggers.frame_start.enable && triggers == 0) ++publishes_before_trigger;
    }
    if (sleeping && sleeping_on == cv) woken = 1;
}
void
verif_on_wait(struct condition_variable* cv, struct lock* l)
{
    /* the streamer waits for a trigger */
    lock_release(l);
    sleeping = 1; sleeping_on = cv; woken = 0;
    for (int k = 0; k < 3; ++k)
        if (!woken) env_step();
    VASSUME(woken); /* schedules in which nobody ever triggers or stops are not of interest */
    sleeping = 0; woken = 0;
    lock_acquire(l);
}
static int iters_;
uint64_t
clock_tic(struct clock* c)
{
    /* called once per streamer iteration: the environment stops the camera within ITER iterations */
    if (c == &cam->streamer.throttle) {
        /* the streamer has just passed its trigger gate and released the lock, no boundary since:
         * the trigger latch must have been consumed by the gate, whether triggering is enabled or
         * not (a trigger fired while triggering is disabled must not satisfy a later gate) */
        VASSERT(cam->software_trigger.triggered == 0, "C18: the trigger latch survived a pass through the streamer's gate (a stale trigger can release a frame later without a new trigger)");
        ++iters_;
        if (iters_ >= ITER) VASSUME(!cam->streamer.is_running);
    }
    env_step();
    return 0;
}
void clock_sleep_ms(struct clock* c, float ms) { env_step(); }
#endif

int
main(void)
{
    struct Camera* c = simcam_make_camera(BasicDevice_Camera_Empty);
    VASSUME(c != 0);
    cam = containerof(c, struct SimulatedCamera, camera);
    struct CameraProperties req;
    memset(&req, 0, sizeof req);
    req.binning = 1; req.shape.x = 4; req.shape.y = 1; req.pixel_type = SampleType_u8;
    req.input_triggers.frame_start.enable = ND(uint8_t) & 1;
    VASSERT(simcam_set(c, &req) == Device_Ok, "set");
    /* counters as some earlier run left them */
    cam->im.frame_id = ND(int16_t);
    cam->im.last_emitted_frame_id = ND(int16_t);
    VASSERT(simcam_start(c) == Device_Ok, "start");
    VASSERT(cam->im.frame_id == -1 && cam->im.last_emitted_frame_id == -1, "C18: start does not restart the frame count");
    VASSERT(created == 1 && at_create_frame_id == -1 && at_create_last_emitted == -1 && at_create_running == 1,
            "C18: the streamer thread is created before start has reset the frame counters and set the running flag (a thread that runs at once seeds its count from the previous run: the count does not restart, ids exceed the triggers)");
    VASSERT(cam->streamer.is_running == 1, "start did not mark the streamer running");
#if SCN == 1
    static uint8_t buf[8];
    size_t n = sizeof buf;
    struct ImageInfo info;
    memset(&info, 0, sizeof info);
    env_fp = env_step_impl;
    armed = 1;
    enum DeviceStatusCode rc = simcam_get_frame(c, buf, &n, &info);
    armed = 0;
    main_done = 1;
    VASSERT(rc == Device_Ok || stop_stage >= 1, "get_frame failed although the camera was running");
    VASSERT(!verif_lock_is_held(&cam->im.lock), "C18: get_frame returned with the image lock held");
    COVER(verif_wait_count >= 1 && stop_stage == 3);
    COVER(verif_wait_count >= 1 && stop_stage == 0);
    WITNESS_END();
#elif SCN == 2
    order_n = 0;
    int run_before = cam->streamer.is_running;
    VASSERT(simcam_stop(c) == Device_Ok, "stop");
    VASSERT(run_before == 1 && cam->streamer.is_running == 0, "stop did not clear the running flag");
    /* expected order: lock(2) notify trigger_ready(3) [unlock] notify frame_ready(4) join(5) */
    VASSERT(order_n == 4 && order_log[0] == 2 && order_log[1] == 3 && order_log[2] == 4 && order_log[3] == 5,
            "C18: simcam_stop no longer has the shape {clear flag; locked trigger section; notify frame_ready; join} that the stop-unblocks harness relies on");
    VASSERT(cam->im.frame_wanted == 1 && cam->software_trigger.triggered == 1, "stop's trigger section did not set frame_wanted/triggered");
    VASSERT(joined == 1 && !verif_lock_is_held(&cam->im.lock), "stop did not join / left the lock held");
    WITNESS_END();
#else
    int iters = 0;
    /* the real streamer loop; it leaves when is_running is cleared; ITER bounds the unwinding */
    simulated_camera_streamer_thread(cam);
    main_done = 1;
    VASSERT(collect_errors == 0, "C18: a frame call returned a hardware frame id that is not larger than the previous one (same frame twice / not increasing)");
    VASSERT(publishes_before_trigger == 0, "C18: frame published before any trigger although the software trigger is enabled");
    if (cam->properties.input_triggers.frame_start.enable)
        VASSERT(publishes_seen <= triggers, "C18: more frames published than triggers fired");
    VASSERT(collected <= publishes_seen, "more frames collected than published");
    VASSERT(!verif_lock_is_held(&cam->im.lock), "streamer left the image lock held");
    COVER(collected >= (ITER >= 3 ? 2 : 1));
    COVER(cam->properties.input_triggers.frame_start.enable && publishes_seen >= 1);
    (void)iters;
    WITNESS_END();
#endif
    return 0;
}
