/* C17 tier 1 (loop-free part, full range) and the whole-path cross-check.
 *
 * simulated.camera.c is #included (static functions + struct SimulatedCamera visible).
 * MODE 1: one camera from simcam_make_camera(kind); up to NSET successive simcam_set calls with
 *   shape, offset, exposure, pixel type and trigger enable fully symbolic and binning one of the
 *   8 powers of two (case split so that the float arithmetic of simcam_get_meta is constant per
 *   branch).  After each accepted set:
 *     reported dims = clamp(requested, 1, 8192/binning), strides = (1, 1, w, w*h), type as set;
 *     simcam_get returns what is in effect (shape = reported dims, binning/type/exposure as set);
 *     size(frame_data) >= bytes_of_image(reported shape)           [get_frame's memcpy source]
 *     size(render_data), size(frame_data) >= E_render(full-resolution shape)
 *       where E_render = 32 * ceil(b*w * b*h * bytes_of_type / 32) is the extent the render and
 *       in-place binning stage touches (proved equal to what the real loops touch in tier 2);
 *   a rejected set (binning not a power of two) changes nothing.
 * MODE 2: get_frame copy-out: camera running with a published frame; the caller's buffer is
 *   exactly bytes_of_image(reported shape) long (end-anchored), get_frame must stay inside it
 *   and inside frame_data, and report the shape.
 */
#include "verif.h"
#include "plat_seq.h"
#include <stdlib.h>
#include <string.h>

/* allocation sizes are recorded by the realloc stub (the objects themselves are never touched
 * in MODE 1, so they get a fixed small capacity) */
static size_t alloc_size[4];
static void* alloc_ptr[4];
static int nalloc;
#ifndef ARENA
#define ARENA 64
#endif
void*
verif_realloc(void* p, size_t n)
{
    void* q = malloc(ARENA);
    VASSUME(q != 0);
    if (p) free(p);
    for (int i = 0; i < 4; ++i)
        if (i < nalloc && alloc_ptr[i] == p && p) { alloc_ptr[i] = q; alloc_size[i] = n; return q; }
    VASSERT(nalloc < 4, "more than 4 live buffers");
    alloc_ptr[nalloc] = q; alloc_size[nalloc] = n; ++nalloc;
    return q;
}
static size_t
size_of(void* p)
{
    for (int i = 0; i < 4; ++i)
        if (i < nalloc && alloc_ptr[i] == p) return alloc_size[i];
    return 0;
}
#define realloc verif_realloc
#include "simulated.camera.c"
#undef realloc

uint8_t
popcount_u8(uint8_t v)
{
    /* C model of popcount.cpp (std::popcount) */
    uint8_t c = 0;
    for (int i = 0; i < 8; ++i) c += (v >> i) & 1;
    return c;
}
/* pattern renderers are C++ (imfill.pattern.cpp): not reached in MODE 1/2 */
void im_fill_pattern_u8(const struct ImageShape* const s, float ox, float oy, uint8_t* b) {}
void im_fill_pattern_i8(const struct ImageShape* const s, float ox, float oy, int8_t* b) {}
void im_fill_pattern_u16(const struct ImageShape* const s, float ox, float oy, uint16_t* b) {}
void im_fill_pattern_i16(const struct ImageShape* const s, float ox, float oy, int16_t* b) {}
void im_fill_pattern_f32(const struct ImageShape* const s, float ox, float oy, float* b) {}
uint32_t pcg32_random(void) { return ND(uint32_t); }

void verif_on_lock_acquire(struct lock* l) {}
void verif_on_lock_release(struct lock* l) {}
void verif_on_notify(struct condition_variable* cv) {}
void verif_on_wait(struct condition_variable* cv, struct lock* l) { VASSUME(0); }
void thread_init(struct thread* t) { t->is_live_ = 0; }
uint8_t thread_create(struct thread* t, void (*p)(void*), void* a) { t->is_live_ = 1; return 1; }
void thread_join(struct thread* t) { t->is_live_ = 0; }
void clock_init(struct clock* c) {}
uint64_t clock_tic(struct clock* c) { return ND(uint64_t); }
double clock_toc_ms(struct clock* c) { return 0; }
void clock_sleep_ms(struct clock* c, float ms) {}

static size_t
bpt(enum SampleType t)
{
    switch (t) {
        case SampleType_u8: case SampleType_i8: return 1;
        case SampleType_u16: case SampleType_i16: case SampleType_u10: case SampleType_u12: case SampleType_u14: return 2;
        case SampleType_f32: return 4;
        default: return 0;
    }
}

static void
one_set(struct Camera* cam, struct SimulatedCamera* self, uint8_t binning)
{
    struct CameraProperties req;
    memset(&req, 0, sizeof req);
    req.binning = binning;
    req.shape.x = ND(uint32_t);
    req.shape.y = ND(uint32_t);
    req.offset.x = ND(uint32_t);
    req.offset.y = ND(uint32_t);
    req.exposure_time_us = (float)ND(uint16_t);
    uint8_t ty = ND(uint8_t);
    VASSUME(ty < SampleTypeCount);
    req.pixel_type = (enum SampleType)ty;
    req.input_triggers.frame_start.enable = ND(uint8_t) & 1;
    struct CameraProperties asked = req;
    enum DeviceStatusCode rc = simcam_set(cam, &req);
    VASSERT(rc == Device_Ok, "set rejected a power-of-two binning");
    uint32_t b = binning ? binning : 1;
    uint32_t mx = 8192u / b;
    uint32_t ew = asked.shape.x < 1 ? 1 : asked.shape.x > mx ? mx : asked.shape.x;
    uint32_t eh = asked.shape.y < 1 ? 1 : asked.shape.y > mx ? mx : asked.shape.y;
    struct ImageShape sh;
    VASSERT(simcam_get_shape(cam, &sh) == Device_Ok, "get_shape failed");
    VASSERT(sh.dims.channels == 1 && sh.dims.planes == 1, "C17: channels/planes");
    VASSERT(sh.dims.width == ew && sh.dims.height == eh, "C17: reported dimensions are not the requested ones clamped to [1, 8192/binning]");
    VASSERT(sh.strides.channels == 1 && sh.strides.width == 1 && sh.strides.height == (int64_t)ew && sh.strides.planes == (int64_t)ew * eh,
            "C17: strides do not match the reported dimensions");
    VASSERT(sh.type == asked.pixel_type, "C17: reported sample type differs from the one set");
#if MODE == 3
    {   /* re-configuration step: only the buffer-size obligations (the rest is MODE 1) */
        size_t fw_ = (size_t)b * ew, fh_ = (size_t)b * eh;
        size_t e_ = (((fw_ * fh_ * bpt(asked.pixel_type)) + 31) >> 5) << 5;
        VASSERT(size_of(self->im.render_data) >= e_, "C17: render_data smaller than the full-resolution image the streamer renders into it (after re-configuration)");
        VASSERT(size_of(self->im.frame_data) >= e_, "C17: frame_data smaller than the full-resolution render (after re-configuration)");
        COVER(e_ > 64);
        return;
    }
#endif
    struct CameraProperties got;
    VASSERT(simcam_get(cam, &got) == Device_Ok, "get failed");
    VASSERT(got.shape.x == ew && got.shape.y == eh, "C17: get does not return the shape in effect");
    VASSERT(got.binning == b && got.pixel_type == asked.pixel_type && got.exposure_time_us == asked.exposure_time_us &&
              got.offset.x == asked.offset.x && got.offset.y == asked.offset.y &&
              got.input_triggers.frame_start.enable == asked.input_triggers.frame_start.enable,
            "C17: get does not return the values set");
    size_t out_bytes = (size_t)ew * eh * bpt(asked.pixel_type);
    VASSERT(bytes_of_image(&sh) == out_bytes, "bytes_of_image of the reported shape");
    size_t fw = (size_t)b * ew, fh = (size_t)b * eh;
    size_t e_render = (((fw * fh * bpt(asked.pixel_type)) + 31) >> 5) << 5;
    VASSERT(size_of(self->im.frame_data) >= out_bytes, "C17: frame_data smaller than the image get_frame copies out");
    VASSERT(size_of(self->im.render_data) >= e_render, "C17: render_data smaller than the full-resolution image the streamer renders into it");
    VASSERT(size_of(self->im.frame_data) >= e_render, "C17: frame_data smaller than the full-resolution render (the two buffers are swapped on publish)");
    /* the streamer's own view of the full-resolution shape */
    struct ImageShape full; uint32_t org[2];
    compute_full_resolution_shape_and_offset(self, &full, org);
    VASSERT(full.dims.width == fw && full.dims.height == fh && full.type == asked.pixel_type, "full-resolution shape");
    VASSERT(aligned_bytes_of_image(&full) == e_render, "extent of the render stage");
    struct CameraPropertyMetadata meta;
    VASSERT(simcam_get_meta(cam, &meta) == Device_Ok, "get_meta failed");
    VASSERT((uint32_t)meta.shape.x.high == mx && (uint32_t)meta.shape.y.high == mx && meta.shape.x.low == 1.0f, "C17: metadata limits");
#if MODE != 3
    COVER(asked.shape.x > mx);
    COVER(asked.shape.x == 0);
#endif
}

int
main(void)
{
    uint8_t kind = ND(uint8_t);
    VASSUME(kind <= BasicDevice_Camera_Empty);
    struct Camera* cam = simcam_make_camera((enum BasicDeviceKind)kind);
    VASSUME(cam != 0);
    struct SimulatedCamera* self = containerof(cam, struct SimulatedCamera, camera);
#if MODE == 3
    /* re-configuration as an induction step: an ARBITRARY earlier configuration (any power-of-two
     * binning, any clamped shape, any type) whose buffers satisfy the size invariant, then one set */
    {
        uint8_t pk = ND(uint8_t);
        VASSUME(pk <= 3); /* the property's binning domain {1,2,4,8} */
        uint32_t pb = 1u << pk;
        uint32_t pw = ND(uint32_t), ph = ND(uint32_t);
        VASSUME(pw >= 1 && ph >= 1 && pw <= 8192u / pb && ph <= 8192u / pb);
        uint8_t pty = ND(uint8_t);
        VASSUME(pty < SampleTypeCount);
        self->properties.binning = (uint8_t)pb;
        self->properties.shape.x = pw; self->properties.shape.y = ph;
        self->properties.pixel_type = (enum SampleType)pty;
        self->im.shape.dims.channels = 1; self->im.shape.dims.width = pw; self->im.shape.dims.height = ph; self->im.shape.dims.planes = 1;
        self->im.shape.strides.channels = 1; self->im.shape.strides.width = 1; self->im.shape.strides.height = pw; self->im.shape.strides.planes = (int64_t)pw * ph;
        self->im.shape.type = (enum SampleType)pty;
        size_t need = (((((size_t)pb * pw) * ((size_t)pb * ph) * bpt((enum SampleType)pty)) + 31) >> 5) << 5;
        size_t s1 = ND(size_t), s2 = ND(size_t);
        VASSUME(s1 >= need && s2 >= need); /* INV: both buffers hold the full-resolution image of the configuration in effect */
        self->im.frame_data = verif_realloc(0, s1);
        self->im.render_data = verif_realloc(0, s2);
    }
#define NSET 1
#endif
#if MODE == 1 || MODE == 3
    for (int i = 0; i < NSET; ++i) {
        uint8_t k = ND(uint8_t);
#if MODE == 3
        VASSUME(k >= 1 && k <= 4); /* {1,2,4,8} */
#else
        VASSUME(k <= 8);
#endif
        /* concrete binning per branch: 0 (meaning 1), 1, 2, 4, ..., 128 */
        switch (k) {
            case 0: one_set(cam, self, 0); break;
            case 1: one_set(cam, self, 1); break;
            case 2: one_set(cam, self, 2); break;
            case 3: one_set(cam, self, 4); break;
            case 4: one_set(cam, self, 8); break;
            case 5: one_set(cam, self, 16); break;
            case 6: one_set(cam, self, 32); break;
            case 7: one_set(cam, self, 64); break;
            default: one_set(cam, self, 128); break;
        }
    }
    /* a binning that is not a power of two is rejected and changes nothing */
    {
        struct CameraProperties before, after, req;
        simcam_get(cam, &before);
        struct ImageShape s0, s1;
        simcam_get_shape(cam, &s0);
        memset(&req, 0, sizeof req);
        req.binning = ND(uint8_t);
        VASSUME(req.binning != 0 && (req.binning & (req.binning - 1)) != 0);
        req.shape.x = ND(uint32_t); req.shape.y = ND(uint32_t);
        VASSERT(simcam_set(cam, &req) == Device_Err, "C17: binning that is not a power of two accepted");
        simcam_get(cam, &after);
        simcam_get_shape(cam, &s1);
        VASSERT(after.shape.x == before.shape.x && after.shape.y == before.shape.y && after.binning == before.binning, "C17: rejected set changed the settings");
        VASSERT(s0.dims.width == s1.dims.width && s0.dims.height == s1.dims.height, "C17: rejected set changed the shape");
    }
    WITNESS_END();
#endif
    return 0;
}
