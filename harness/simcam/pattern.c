/* C17 (pattern camera renderer): extent of im_fill_pattern<T> (imfill.pattern.cpp, C++), reached through the
 * clang-IR -> C route (ir2c). The renderer is called exactly as simcam_streamer_thread calls it: with the
 * full-resolution shape (strides 1, w, w*h) and a buffer of aligned_bytes_of_image(full) bytes, which is what
 * simcam_set allocates for render_data. The buffer is end-anchored in a fixed arena so that every byte written
 * past it is a CBMC bounds failure; bytes in front of it carry a canary.
 * Environment: sinf answers an arbitrary value in [-1, 1]; the animation clock an arbitrary non-negative time.
 * -DFN=<im_fill_pattern_xx> -DBPP=<bytes per pixel> -DWMAX -DHMAX; -DWITNESS makes the final assert(0) reachable. */
#include <stdint.h>
#include <stddef.h>
#include <assert.h>
struct dims_s { uint32_t channels, width, height, planes; };
struct strides_s { int64_t channels, width, height, planes; };
struct ImageShape { struct dims_s dims; struct strides_s strides; int32_t type; };
/* the unit's only global (animation clock, zero-initialised); the translator leaves its definition to the harness */
char g__ZN12_GLOBAL__N_115g_animation_clkE[16] __attribute__((aligned(8)));
#include GEN_C /* imfill.pattern.cpp translated by ir2c on this run */
float nondet_float(void);
double nondet_double(void);
uint32_t nondet_u32(void);
float sinf(float x) { float r = nondet_float(); __CPROVER_assume(r >= -1.0f && r <= 1.0f); return r; }
float llvm_fmuladd_f32(float a, float b, float c) { return a * b + c; }
void clock_init(char* c) { (void)c; }
double clock_toc_ms(char* c) { (void)c; double t = nondet_double(); __CPROVER_assume(t >= 0.0 && t <= 1e9); return t; }
#define ARENA 512
#define FRONT 64
static char arena[FRONT + ARENA] __attribute__((aligned(32)));
int main(void)
{
    uint32_t w = nondet_u32(), h = nondet_u32();
    __CPROVER_assume(w >= 1 && w <= WMAX && h >= 1 && h <= HMAX);
    struct ImageShape s = { .dims = { 1, w, h, 1 }, .strides = { 1, 1, w, (int64_t)w * h }, .type = TYPE };
    size_t n = (size_t)w * h * BPP, al = ((n + 31) >> 5) << 5; /* aligned_bytes_of_image */
    __CPROVER_assume(al <= ARENA);
    float ox = nondet_float(), oy = nondet_float();
    __CPROVER_assume(ox >= 0.0f && ox <= 65536.0f && oy >= 0.0f && oy <= 65536.0f);
    for (unsigned i = 0; i < FRONT; ++i) arena[i] = (char)0x5a;
    char* buf = arena + FRONT + (ARENA - al);
    FN((char*)&s, ox, oy, buf);
    for (unsigned i = 0; i < FRONT; ++i) assert(arena[i] == (char)0x5a); /* nothing written in front of the arena part */
#ifdef WITNESS
    assert(0);
#endif
    return 0;
}
