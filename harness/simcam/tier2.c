/* C17 tier 2: the REAL render / binning loops stay inside the extent that tier 1 shows the
 * buffers to have.  End-anchored arena: the buffer is the LAST E bytes of a fixed-size object
 * (E = the extent tier 1 proves the allocation to be at least), so touching byte E leaves the
 * object and CBMC's bounds check on every load/store is the obligation "extent <= E".
 * KERNEL 1  im_fill_rand(shape)            E = aligned_bytes_of_image(shape)
 * KERNEL 2  bin2(buf, w, h) as shipped (AVX2 variant when built with -mavx2): E = 32*ceil(w*h/32)
 * KERNEL 3  the streamer's binning cascade for binning b in {2,4,8}: bin2 on (w,h), (w/2,h/2), ...
 * Shapes symbolic inside the box WMAX x HMAX.  The AVX2 intrinsics have no body under CBMC (lane
 * values are arbitrary), which is all memory safety needs. */
#include "verif.h"
#include "plat_seq.h"
#include <stdlib.h>
#include <string.h>
#include "simulated.camera.c"

#ifndef WMAX
#define WMAX 70
#endif
#ifndef HMAX
#define HMAX 5
#endif
#ifndef WMIN
#define WMIN 1
#endif
#define ARENA (((WMAX * HMAX * 4 + 31) / 32) * 32 + 32)
static uint8_t arena[ARENA] __attribute__((aligned(32)));

uint8_t popcount_u8(uint8_t v) { uint8_t c = 0; for (int i = 0; i < 8; ++i) c += (v >> i) & 1; return c; }
void im_fill_pattern_u8(const struct ImageShape* const s, float ox, float oy, uint8_t* b) {}
void im_fill_pattern_i8(const struct ImageShape* const s, float ox, float oy, int8_t* b) {}
void im_fill_pattern_u16(const struct ImageShape* const s, float ox, float oy, uint16_t* b) {}
void im_fill_pattern_i16(const struct ImageShape* const s, float ox, float oy, int16_t* b) {}
void im_fill_pattern_f32(const struct ImageShape* const s, float ox, float oy, float* b) {}
uint32_t pcg32_random(void) { return ND(uint32_t); }
void verif_on_lock_acquire(struct lock* l) {}
void verif_on_lock_release(struct lock* l) {}
void verif_on_notify(struct condition_variable* cv) {}
void verif_on_wait(struct condition_variable* cv, struct lock* l) { VASSUME(0); }
void thread_init(struct thread* t) {}
uint8_t thread_create(struct thread* t, void (*p)(void*), void* a) { return 1; }
void thread_join(struct thread* t) {}
void clock_init(struct clock* c) {}
uint64_t clock_tic(struct clock* c) { return 0; }
double clock_toc_ms(struct clock* c) { return 0; }
void clock_sleep_ms(struct clock* c, float ms) {}

#if KERNEL != 1 && KERNEL != 4
/* bin2: width and height are enumerated by loops with constant trip counts, so that after
 * unwinding every block index and the buffer base are constants and CBMC's bounds checks decide
 * each access directly; with a symbolic width or height the 32-byte vector stores at symbolic
 * offsets ran out of 20 GB.  bin2's accesses depend on (w, h) only (lane values are arbitrary), so
 * the enumeration is a complete decision for the box. */
static void one_shape(uint32_t w, uint32_t h);
int
main(void)
{
    for (uint32_t w = WMIN; w <= WMAX; ++w)
        for (uint32_t h = 1; h <= HMAX; ++h) one_shape(w, h);
    WITNESS_END();
    return 0;
}
static void
one_shape(uint32_t w, uint32_t h)
{
#else
int
main(void)
{
    uint32_t w = ND(uint32_t), h = ND(uint32_t);
    VASSUME(w >= 1 && w <= WMAX && h >= 1 && h <= HMAX);
#endif
#if KERNEL == 4
    /* simcam_get_frame fills EXACTLY bytes_of_image(shape) bytes of the caller's buffer: the caller's
     * buffer is the last bytes_of_image bytes of the arena (one byte more leaves the object); the
     * camera's own frame buffer is as large as tier 1 shows it to be (aligned extent) */
    static struct SimulatedCamera cam;
    memset(&cam.im.shape, 0, sizeof cam.im.shape);
    cam.im.shape.dims.channels = 1; cam.im.shape.dims.width = w; cam.im.shape.dims.height = h; cam.im.shape.dims.planes = 1;
    uint8_t ty4 = ND(uint8_t);
    VASSUME(ty4 < SampleTypeCount);
    cam.im.shape.type = (enum SampleType)ty4;
    compute_strides(&cam.im.shape);
    size_t nb = bytes_of_image(&cam.im.shape), E4 = aligned_bytes_of_image(&cam.im.shape);
    VASSERT(nb <= E4 && E4 <= ARENA, "extent formula");
    static uint8_t frame_store[ARENA] __attribute__((aligned(32)));
    cam.im.frame_data = frame_store + (ARENA - E4);
    cam.streamer.is_running = 1;
    cam.im.frame_id = 0; cam.im.last_emitted_frame_id = -1; /* a fresh frame is published: no waiting */
    size_t given = ND(size_t);
    VASSUME(given >= nb && given <= ARENA); /* the caller may offer more room than needed; it is only promised nb bytes are touched */
    struct ImageInfo info;
    memset(&info, 0, sizeof info);
    size_t n4 = given;
    enum DeviceStatusCode rc4 = simcam_get_frame(&cam.camera, arena + (ARENA - nb), &n4, &info);
    VASSERT(rc4 == Device_Ok, "get_frame failed although a frame was published");
    VASSERT(info.shape.dims.width == w && info.shape.dims.height == h && info.shape.type == cam.im.shape.type, "C17: frame call reports a shape other than the camera's");
    COVER(nb < E4 && nb > 8);
    WITNESS_END();
    return 0;
#elif KERNEL == 1
    struct ImageShape s;
    memset(&s, 0, sizeof s);
    s.dims.channels = 1; s.dims.width = w; s.dims.height = h; s.dims.planes = 1;
    uint8_t ty = ND(uint8_t);
    VASSUME(ty < SampleTypeCount);
    s.type = (enum SampleType)ty;
    compute_strides(&s);
    size_t E = aligned_bytes_of_image(&s);
    VASSERT(E <= ARENA && (E & 31) == 0, "extent formula");
    im_fill_rand(&s, arena + (ARENA - E));
    COVER(E == ARENA - 32);
#elif KERNEL == 2
    size_t E = (((size_t)w * h + 31) >> 5) << 5;
    bin2(arena + (ARENA - E), (int)w, (int)h);
#elif KERNEL == 3
    for (int k = 1; k <= 3; ++k) {
    int b = 1 << k; /* binning 2, 4, 8 */
    size_t E = (((size_t)w * h + 31) >> 5) << 5;
    uint8_t* buf = arena + (ARENA - E);
    {
        /* verbatim from simulated_camera_streamer_thread */
        int w_ = (int)w, h_ = (int)h;
        int b_ = b >> 1;
        while (b_) {
            bin2(buf, w_, h_);
            b_ >>= 1;
            w_ >>= 1;
            h_ >>= 1;
        }
    }
    }
#endif
#if KERNEL == 1
    WITNESS_END();
    return 0;
#endif
}
