/* C13 scenario harnesses (symbolic inputs, fixed call shapes).
 *
 * SCN=1  copy step:   source B built by init(+keys)(+set_dimension per slot), destination A either
 *                     zero-initialised or init'ed with its own strings and dimensions; A<-B; compare
 *                     every field, pointer independence, B untouched; then mutate B and re-check A;
 *                     then a second copy in a symbolic direction (A<-B again or B<-A); destroy both.
 * SCN=2  setters:     init, then every string setter twice with independent symbolic strings
 *                     (grow / shrink / NULL / empty / unterminated), set_dimension on the same slot
 *                     twice; destroy.
 * Heap discipline (double free, use after free, out-of-bounds, leak at exit) is decided by CBMC's
 * instrumentation over the same runs.
 */
#include "verif.h"
#include <stdlib.h>
#include <string.h>
#include "device/props/storage.h"
#undef malloc
#undef realloc
void* malloc(size_t);

#define SMAX 3
#define DMAX 2
#define DSZ sizeof(struct StorageDimension)

void*
verif_malloc(size_t n)
{
    /* concrete allocation sizes only (symbolic-size objects blow up the array encoding) */
    void* q;
    if (n == 1) q = malloc(1);
    else if (n == 2) q = malloc(2);
    else if (n == 3) q = malloc(3);
    else if (n == DSZ) q = malloc(DSZ);
    else if (n == 2 * DSZ) q = malloc(2 * DSZ);
    else { VASSERT(0, "allocation size outside the sizes possible within the harness bounds"); q = 0; }
    VASSUME(q != 0);
    return q;
}
void*
verif_realloc(void* p, size_t n)
{
    void* q = verif_malloc(n);
    if (p) free(p);
    return q;
}

struct sarg { const char* p; size_t n; char want[SMAX]; size_t wn; };

/* a fresh exactly-sized source buffer per argument: over-reads are out of bounds */
static struct sarg
draw_string(int terminated)
{
    struct sarg a;
    uint8_t n = ND(uint8_t);
    VASSUME(n <= SMAX);
    bool_t is_null = ND(bool_t);
    a.want[0] = a.want[1] = a.want[2] = 0;
    if (n == 0 || is_null) {
        static const char e[1] = { 0 };
        a.p = is_null ? (const char*)0 : e;
        a.n = is_null ? (size_t)n : 0;
        a.wn = 1;
        return a;
    }
    char* b = n == 1 ? malloc(1) : n == 2 ? malloc(2) : malloc(3);
    VASSUME(b != 0);
    if (n >= 1) b[0] = (char)ND(uint8_t);
    if (n >= 2) b[1] = (char)ND(uint8_t);
    if (n >= 3) b[2] = (char)ND(uint8_t);
    if (terminated) b[n - 1] = 0;
    a.p = b;
    a.n = n;
    a.wn = n;
    if (n >= 2) a.want[0] = b[0];
    if (n >= 3) a.want[1] = b[1];
    return a;
}
static void
release(struct sarg* a)
{
    if (a->p && a->n) free((void*)a->p);
}
static void
expect_string(const struct String* s, const struct sarg* a)
{
    VASSERT(s->str != 0 && s->is_ref == 0, "C13: stored string missing or not owned");
    VASSERT(s->nbytes == a->wn, "C13: recorded length differs from the value set");
    VASSERT(s->str[s->nbytes - 1] == 0, "C13: stored string not NUL-terminated at its recorded length");
    if (a->wn >= 2) VASSERT(s->str[0] == a->want[0], "C13: string bytes differ from the value set");
    if (a->wn >= 3) VASSERT(s->str[1] == a->want[1], "C13: string bytes differ from the value set");
}
static void
same_string(const struct String* d, const struct String* s, int src_was_set)
{
    VASSERT(d->str != 0 && d->is_ref == 0, "C13: copied string missing or not owned");
    if (s->str && s->nbytes) {
        VASSERT(d->nbytes == s->nbytes, "C13: copied string length differs");
        VASSERT(d->str != s->str, "C13: copy shares string storage with the source");
        if (s->nbytes >= 1) VASSERT(d->str[0] == s->str[0], "C13: copied string bytes differ");
        if (s->nbytes >= 2) VASSERT(d->str[1] == s->str[1], "C13: copied string bytes differ");
        if (s->nbytes >= 3) VASSERT(d->str[2] == s->str[2], "C13: copied string bytes differ");
    } else {
        VASSERT(d->nbytes == 1 && d->str[0] == 0, "C13: copy of an unset string is not the empty string");
    }
    VASSERT(d->str[d->nbytes - 1] == 0, "C13: copied string not NUL-terminated");
    (void)src_was_set;
}
static void
same_props(const struct StorageProperties* d, const struct StorageProperties* s)
{
    same_string(&d->uri, &s->uri, 1);
    same_string(&d->external_metadata_json, &s->external_metadata_json, 1);
    same_string(&d->access_key_id, &s->access_key_id, 0);
    same_string(&d->secret_access_key, &s->secret_access_key, 0);
    VASSERT(d->first_frame_id == s->first_frame_id, "C13: first_frame_id differs");
    VASSERT(d->pixel_scale_um.x == s->pixel_scale_um.x && d->pixel_scale_um.y == s->pixel_scale_um.y, "C13: pixel scale differs");
    VASSERT(d->enable_multiscale == s->enable_multiscale, "C13: multiscale flag differs");
    VASSERT(d->acquisition_dimensions.size == s->acquisition_dimensions.size, "C13: dimension count differs");
    VASSERT((d->acquisition_dimensions.data != 0) == (s->acquisition_dimensions.data != 0), "C13: dimension array presence differs");
    VASSERT(!d->acquisition_dimensions.data || d->acquisition_dimensions.data != s->acquisition_dimensions.data, "C13: copy shares the dimension array with the source");
    for (size_t i = 0; i < DMAX; ++i)
        if (i < s->acquisition_dimensions.size) {
            const struct StorageDimension *a = &d->acquisition_dimensions.data[i], *b = &s->acquisition_dimensions.data[i];
            same_string(&a->name, &b->name, 0);
            VASSERT(a->kind == b->kind && a->array_size_px == b->array_size_px && a->chunk_size_px == b->chunk_size_px &&
                      a->shard_size_chunks == b->shard_size_chunks, "C13: dimension fields differ");
        }
}

struct snap { struct StorageProperties p; char s[4][SMAX]; struct StorageDimension d[DMAX]; char dn[DMAX][SMAX]; };
static void
snap_str(char out[SMAX], const struct String* s)
{
    out[0] = out[1] = out[2] = 0;
    if (s->str) {
        if (s->nbytes >= 1) out[0] = s->str[0];
        if (s->nbytes >= 2) out[1] = s->str[1];
        if (s->nbytes >= 3) out[2] = s->str[2];
    }
}
static void
snapshot(struct snap* k, const struct StorageProperties* p)
{
    k->p = *p;
    snap_str(k->s[0], &p->uri); snap_str(k->s[1], &p->external_metadata_json);
    snap_str(k->s[2], &p->access_key_id); snap_str(k->s[3], &p->secret_access_key);
    for (size_t i = 0; i < DMAX; ++i)
        if (i < p->acquisition_dimensions.size) { k->d[i] = p->acquisition_dimensions.data[i]; snap_str(k->dn[i], &p->acquisition_dimensions.data[i].name); }
}
static int
str_unchanged(const struct String* now, const struct String* was, const char bytes[SMAX])
{
    if (now->str != was->str || now->nbytes != was->nbytes || now->is_ref != was->is_ref) return 0;
    if (now->str) {
        if (now->nbytes >= 1 && now->str[0] != bytes[0]) return 0;
        if (now->nbytes >= 2 && now->str[1] != bytes[1]) return 0;
        if (now->nbytes >= 3 && now->str[2] != bytes[2]) return 0;
    }
    return 1;
}
static void
unchanged(const struct StorageProperties* p, const struct snap* k)
{
    VASSERT(str_unchanged(&p->uri, &k->p.uri, k->s[0]) && str_unchanged(&p->external_metadata_json, &k->p.external_metadata_json, k->s[1]) &&
              str_unchanged(&p->access_key_id, &k->p.access_key_id, k->s[2]) && str_unchanged(&p->secret_access_key, &k->p.secret_access_key, k->s[3]),
            "C13: an object's strings were modified by an operation on another object");
    VASSERT(p->first_frame_id == k->p.first_frame_id && p->enable_multiscale == k->p.enable_multiscale &&
              p->pixel_scale_um.x == k->p.pixel_scale_um.x && p->pixel_scale_um.y == k->p.pixel_scale_um.y,
            "C13: an object's scalars were modified by an operation on another object");
    VASSERT(p->acquisition_dimensions.data == k->p.acquisition_dimensions.data && p->acquisition_dimensions.size == k->p.acquisition_dimensions.size,
            "C13: an object's dimension array was replaced by an operation on another object");
    for (size_t i = 0; i < DMAX; ++i)
        if (i < k->p.acquisition_dimensions.size) {
            const struct StorageDimension* d = &p->acquisition_dimensions.data[i];
            VASSERT(str_unchanged(&d->name, &k->d[i].name, k->dn[i]) && d->kind == k->d[i].kind && d->array_size_px == k->d[i].array_size_px &&
                      d->chunk_size_px == k->d[i].chunk_size_px && d->shard_size_chunks == k->d[i].shard_size_chunks,
                    "C13: an object's dimensions were modified by an operation on another object");
        }
}

static void
build(struct StorageProperties* p, int* ndims_out, int nd_fixed)
{
    struct sarg u = draw_string(0), m = draw_string(0);
    struct PixelScale ps;
    ps.x = (double)(ND(uint16_t));
    ps.y = (double)(ND(uint16_t));
    uint8_t nd = (uint8_t)nd_fixed; /* concrete per harness instance (NDA/NDB) */
    VASSERT(storage_properties_init(p, ND(uint32_t), u.p, u.n, m.p, m.n, ps, nd) == 1, "init failed on valid input");
    expect_string(&p->uri, &u);
    expect_string(&p->external_metadata_json, &m);
    release(&u); release(&m);
    if (ND(bool_t)) {
        struct sarg k = draw_string(0), s = draw_string(0);
        VASSERT(storage_properties_set_access_key_and_secret(p, k.p, k.n, s.p, s.n) == 1, "set key/secret failed");
        expect_string(&p->access_key_id, &k);
        expect_string(&p->secret_access_key, &s);
        release(&k); release(&s);
    }
    if (ND(bool_t)) VASSERT(storage_properties_set_enable_multiscale(p, ND(uint8_t)) == 1, "set multiscale failed");
    for (int i = 0; i < DMAX; ++i)
        if (i < nd && ND(bool_t)) {
            struct sarg nm = draw_string(1);
            VASSUME(nm.p != 0 && nm.n >= 2 && nm.p[0] != 0);
            uint8_t kind = ND(uint8_t);
            VASSUME(kind < DimensionTypeCount);
            VASSERT(storage_properties_set_dimension(p, i, nm.p, nm.n, (enum DimensionType)kind, ND(uint32_t), ND(uint32_t), ND(uint32_t)) == 1,
                    "set_dimension failed on valid input");
            expect_string(&p->acquisition_dimensions.data[i].name, &nm);
            release(&nm);
        }
    *ndims_out = nd;
}

int
main(void)
{
#if SCN == 1
    static struct StorageProperties A, B;
    static struct snap kb, ka;
    int nda = 0, ndb = 0;
    build(&B, &ndb, NDB);
    bool_t a_init = A_INIT;
    if (a_init) build(&A, &nda, NDA);
    snapshot(&kb, &B);
    VASSERT(storage_properties_copy(&A, &B) == 1, "copy failed");
    same_props(&A, &B);
    unchanged(&B, &kb);
    /* independence: changing the source afterwards must not show in the copy */
    snapshot(&ka, &A);
    {
        struct sarg u = draw_string(0);
        VASSERT(storage_properties_set_uri(&B, u.p, u.n) == 1, "set_uri failed");
        expect_string(&B.uri, &u);
        release(&u);
        if (ndb > 0) {
            struct sarg nm = draw_string(1);
            VASSUME(nm.p != 0 && nm.n >= 2 && nm.p[0] != 0);
            VASSERT(storage_properties_set_dimension(&B, 0, nm.p, nm.n, DimensionType_Time, 1, 2, 3) == 1, "set_dimension failed");
            release(&nm);
        }
    }
    unchanged(&A, &ka);
    /* second copy, either direction */
    bool_t dir = DIR;
    if (dir) {
        snapshot(&kb, &B);
        VASSERT(storage_properties_copy(&A, &B) == 1, "second copy failed");
        same_props(&A, &B);
        unchanged(&B, &kb);
    } else {
        snapshot(&ka, &A);
        VASSERT(storage_properties_copy(&B, &A) == 1, "reverse copy failed");
        same_props(&B, &A);
        unchanged(&A, &ka);
    }
    storage_properties_destroy(&A);
    storage_properties_destroy(&B);
    WITNESS_END();
#elif SCN == 2
    static struct StorageProperties A;
    int nd = 0;
    build(&A, &nd, NDA);
    for (int r = 0; r < 2; ++r) {
        struct sarg u = draw_string(0);
        VASSERT(storage_properties_set_uri(&A, u.p, u.n) == 1, "set_uri failed");
        expect_string(&A.uri, &u);
        release(&u);
        struct sarg m = draw_string(0);
        VASSERT(storage_properties_set_external_metadata(&A, m.p, m.n) == 1, "set_external_metadata failed");
        expect_string(&A.external_metadata_json, &m);
        release(&m);
        struct sarg k = draw_string(0), s = draw_string(0);
        VASSERT(storage_properties_set_access_key_and_secret(&A, k.p, k.n, s.p, s.n) == 1, "set key/secret failed");
        expect_string(&A.access_key_id, &k);
        expect_string(&A.secret_access_key, &s);
        release(&k); release(&s);
        if (nd > 0) {
            struct sarg nm = draw_string(1);
            uint8_t idx = ND(uint8_t), kind = ND(uint8_t);
            VASSUME(idx <= DMAX && kind <= DimensionTypeCount);
            int valid = idx < nd && nm.p != 0 && nm.n > 0 && nm.p[0] != 0 && kind < DimensionTypeCount;
            int ok = storage_properties_set_dimension(&A, idx, nm.p, nm.n, (enum DimensionType)kind, 4, 5, 6);
            VASSERT(ok == valid, "set_dimension result does not match argument validity");
            if (valid) expect_string(&A.acquisition_dimensions.data[idx].name, &nm);
            release(&nm);
        }
    }
#if NDA > 0
    COVER(nd > 0);
#endif
    storage_properties_destroy(&A);
    WITNESS_END();
#endif
    return 0;
}
