#!/usr/bin/env python3
"""writes MANIFEST.json from the table below (kept in one place so it stays valid)"""
import json, os
V = os.path.dirname(os.path.abspath(__file__))
CHECKS = {
 "C01": ("proof", "Induction step over the real channel.c: from every 64-bit state satisfying a checked representation invariant, each public operation preserves the invariant and refines the per-reader unread-list (append on commit, prefix on map, drop-front on unmap, untouched otherwise); base case channel_new. Thorough adds 8 reader slots and bounded symbolic histories from channel_new with byte-level sequence checks.", "§4 C01",
         "CBMC 6.11 + kissat/cadical; lock gives mutual exclusion; a sleeping writer wakes in an arbitrary INV state; lap counter < 2^62; capacity <= 2^40", "bounded symbolic execution (CBMC) of channel.c: inductive step with SAT verdict"),
 "C02": ("proof", "Same induction step: after channel_write_map the region is data+head', inside the buffer, disjoint from every reader's unread intervals and from a mapped observer's slice; read slices are prefixes of committed contiguous data.", "§4 C02",
         "as C01", "bounded symbolic execution (CBMC) of channel.c: inductive step with SAT verdict"),
 "C13": ("model_checking", "Scripted call shapes over the real props/storage.c with all strings symbolic (NULL, empty, 1..3 bytes, terminated or not) and 0..2 dimensions per side: after copy every field is compared, pointer independence asserted, the source compared with a snapshot, the source mutated and the copy re-checked, a second copy in either direction; CBMC heap instrumentation decides double free/use after free/OOB and the leak check decides 'each allocation released exactly once'.", "§4 C13",
         "CBMC + cadical; realloc without content copy; typed memset/memcpy rewrite (lib/typed_mem.h); malloc never fails", "bounded symbolic execution (CBMC) of props/storage.c with heap and leak instrumentation"),
 "C11": ("model_checking", "All sequences of up to 8 (thorough 14) HAL calls after open over a mock driver whose every return code is symbolic, device object freed by the driver's close: protocol monitor (stop/append/get_frame only while the driver is running, one close per successful driver open incl. open's error paths, nothing after close), HAL state = function of the driver's last response, CBMC deallocated-object checks for accesses after close.", "§4 C11",
         "CBMC + cadical; device manager replaced by a stub returning the mock driver; function pointers non-NULL", "bounded symbolic execution (CBMC) of hal/camera.c, storage.c, driver.c over a symbolic call sequence"),
}
NA = {}
def main():
    checks = []
    for pid, (cat, text, ref, note, tech) in sorted(CHECKS.items()):
        checks.append(dict(property_id=pid, quick_cmd="python3 run.py %s --tier quick" % pid,
                           thorough_cmd="python3 run.py %s --tier thorough" % pid,
                           evidence_file="evidence/%s.json" % pid,
                           replay_cmd_template="python3 run.py --replay {path}",
                           engine="cbmc", level_claimed=dict(category=cat, text=text, design_ref=ref),
                           level_note=note, technique=tech))
    props = [json.loads(l)["id"] for l in open(os.path.join(V, "properties.jsonl"))]
    na = [dict(property_id=p, reason=NA.get(p, "check not built yet in this revision (work in progress)")) for p in props if p not in CHECKS]
    m = dict(version=1, setup_cmd="python3 selftest.py",
             hooks=dict(guard="ACQUIRE_COMMON_VERIF", enable="harness builds pass -DACQUIRE_COMMON_VERIF=1 to goto-cc/clang (no source hook exists yet; nothing in /repo tests the macro)",
                        baseline_off_cmd="cmake --build /repo/_build && ctest --test-dir /repo/_build -j8 --timeout 900",
                        source_commits=[], add_only=True),
             engines=[dict(name="cbmc", path="/verif/run.py", serves_properties=sorted(CHECKS), kind_free_text="bounded symbolic execution of the real C sources (goto-cc -> cbmc -> SAT), C++ units through clang IR -> C translation")],
             checks=checks, not_applicable=na,
             notes="Exit codes of run.py: 0 held, 1 violation (replayed natively), 2 inconclusive (timeout/vacuity/bound), 3 solver counterexample not reproduced natively.")
    json.dump(m, open(os.path.join(V, "MANIFEST.json"), "w"), indent=1)
main()
