#!/usr/bin/env python3
"""writes MANIFEST.json from the table below (kept in one place so it stays valid)"""
import json, os
V = os.path.dirname(os.path.abspath(__file__))
CHECKS = {
 "C01": ("proof", "Induction step over the real channel.c: from every 64-bit state satisfying a checked representation invariant, each public operation preserves the invariant and refines the per-reader unread-list (append on commit, prefix on map, drop-front on unmap, untouched otherwise); base case channel_new. Thorough adds 8 reader slots and bounded symbolic histories from channel_new with byte-level sequence checks.", "§4 C01",
         "CBMC 6.11 + kissat/cadical; lock gives mutual exclusion; a sleeping writer wakes in an arbitrary INV state; lap counter < 2^62; capacity <= 2^40", "bounded symbolic execution (CBMC) of channel.c: inductive step with SAT verdict"),
 "C02": ("proof", "Same induction step: after channel_write_map the region is data+head', inside the buffer, disjoint from every reader's unread intervals and from a mapped observer's slice; read slices are prefixes of committed contiguous data.", "§4 C02",
         "as C01", "bounded symbolic execution (CBMC) of channel.c: inductive step with SAT verdict"),
 "C13": ("model_checking", "Scripted call shapes over the real props/storage.c with all strings symbolic (NULL, empty, 1..3 bytes, terminated or not) and 0..2 dimensions per side: after copy every field is compared, pointer independence asserted, the source compared with a snapshot, the source mutated and the copy re-checked, a second copy in either direction; CBMC heap instrumentation decides double free/use after free/OOB and the leak check decides 'each allocation released exactly once'.", "§4 C13",
         "CBMC + cadical; realloc without content copy; typed memset/memcpy rewrite (lib/typed_mem.h); malloc never fails", "bounded symbolic execution (CBMC) of props/storage.c with heap and leak instrumentation"),
 "C11": ("model_checking", "All sequences of up to 8 (thorough 14) HAL calls after open over a mock driver whose every return code is symbolic, device object freed by the driver's close: protocol monitor (stop/append/get_frame only while the driver is running, one close per successful driver open incl. open's error paths, nothing after close), HAL state = function of the driver's last response, CBMC deallocated-object checks for accesses after close.", "§4 C11",
         "CBMC + cadical; device manager replaced by a stub returning the mock driver; function pointers non-NULL", "bounded symbolic execution (CBMC) of hal/camera.c, storage.c, driver.c over a symbolic call sequence"),
 "C03": ("model_checking", "Real channel_write_map from an arbitrary 64-bit INV state as main flow; the real accept_writes/read_map/read_unmap run as environment steps inserted by goto-instrument --isr before every read of the fields the writer consults between taking the lock and going to sleep (so also between its check and its sleep); pthread-faithful sleep model (a broadcast only wakes a thread that is already asleep); the solver must show that the writer never sleeps forever once writes are refused / readers have drained. Plus drain-in-3-rounds from any INV state, plus the notification audit of the C01 step harnesses.", "§4 C03",
         "CBMC + kissat; lock/cv model; env steps needing the lock while the writer holds it start after its release; <=2 readers; ISR counterexamples are reported from the solver trace (no native replay at instruction granularity)", "bounded symbolic execution (CBMC) with ISR-instrumented interleavings of the real channel functions"),
 "C14": ("model_checking", "Append step: raw device running with an arbitrary 64-bit file offset, one append of 0..4 (8) arbitrary bytes under every short-write pattern of pwrite, observed at each accepted pwrite (own descriptor, offset0+done, packet+done); acquisition skeleton: 2 acquisitions with every URI spelling, each write goes to the URI's file at the offset = bytes appended earlier in this acquisition, descriptor closed at stop. The real linux/platform.c file functions run on a syscall model.", "§4 C14",
         "CBMC + cadical; syscall model env/fs_model.c; typed mem rewrite; same path not re-used by a later acquisition", "bounded symbolic execution (CBMC) of raw.c + platform.c + HAL over a syscall model"),
 "C16": ("model_checking", "raw and trash devices through the HAL: every sub-sequence of set,start,append,append,stop,stop[,set,start,append,stop] then close, with a failing open and one-shot/persistent pwrite failures at symbolic indices: only owned descriptors written/closed, each closed exactly once, failing append leaves the running state. (tiff / tiff-json: see not_applicable note in DESIGN for what is covered.)", "§4 C16",
         "CBMC + cadical; syscall model; open returns the lowest free descriptor", "bounded symbolic execution (CBMC) of raw.c/trash.c + platform.c + HAL with fault injection"),
 "C17": ("model_checking", "simcam_set/get/get_shape/get_meta with shape, offset, exposure, type, trigger fully symbolic (32-bit) and every binning: clamping, strides, get-after-set, and allocation sizes >= the extent of the full-resolution render (extent formula proved against the real loops in the thorough tier on a small shape box).", "§4 C17",
         "CBMC + cadical; popcount C model; realloc stub records sizes", "bounded symbolic execution (CBMC) of simulated.camera.c"),
 "C05": ("model_checking", "Framing arithmetic in the real video_source_thread for every ImageShape (plane stride <= 2^37, all sample types); alignment shown inductive in the channel (INV + all cursors multiple of 8); packet structure checked by the mock storage/client in the unit and runtime harnesses.", "§4 C05",
         "CBMC; as C01 for the induction steps", "bounded symbolic execution (CBMC): source.c framing with symbolic shape + channel induction step with alignment"),
}
NA = {}
def main():
    checks = []
    for pid, (cat, text, ref, note, tech) in sorted(CHECKS.items()):
        checks.append(dict(property_id=pid, quick_cmd="python3 run.py %s --tier quick" % pid,
                           thorough_cmd="python3 run.py %s --tier thorough" % pid,
                           evidence_file="evidence/%s.json" % pid,
                           replay_cmd_template="python3 run.py --replay {path}",
                           engine="cbmc", level_claimed=dict(category=cat, text=text, design_ref=ref),
                           level_note=note, technique=tech))
    props = [json.loads(l)["id"] for l in open(os.path.join(V, "properties.jsonl"))]
    na = [dict(property_id=p, reason=NA.get(p, "check not built yet in this revision (work in progress)")) for p in props if p not in CHECKS]
    m = dict(version=1, setup_cmd="python3 selftest.py",
             hooks=dict(guard="ACQUIRE_COMMON_VERIF", enable="harness builds pass -DACQUIRE_COMMON_VERIF=1 to goto-cc/clang (no source hook exists yet; nothing in /repo tests the macro)",
                        baseline_off_cmd="cmake --build /repo/_build && ctest --test-dir /repo/_build -j8 --timeout 900",
                        source_commits=[], add_only=True),
             engines=[dict(name="cbmc", path="/verif/run.py", serves_properties=sorted(CHECKS), kind_free_text="bounded symbolic execution of the real C sources (goto-cc -> cbmc -> SAT), C++ units through clang IR -> C translation")],
             checks=checks, not_applicable=na,
             notes="Exit codes of run.py: 0 held, 1 violation (replayed natively), 2 inconclusive (timeout/vacuity/bound), 3 solver counterexample not reproduced natively.")
    json.dump(m, open(os.path.join(V, "MANIFEST.json"), "w"), indent=1)
main()
